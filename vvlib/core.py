# Shared machinery of ./check: builds (translator, Coq, extraction, harness),
# case execution, diffing, violation protocol, evidence.
import fcntl, hashlib, json, os, re, subprocess, sys, time

VERIF = os.path.dirname(os.path.dirname(os.path.abspath(__file__)))
REPO = os.environ.get("VERIF_REPO", "/repo")
BUILD = os.path.join(VERIF, ".build")
COQ = os.path.join(VERIF, "coq")
ENV = dict(os.environ, CARGO_NET_OFFLINE="true")
ALLOWED_AXIOMS = set()  # DESIGN.md section 9: the allow-list is empty

FORBIDDEN = re.compile(
    r"\b(Admitted|admit|Axiom|Axioms|Parameter|Parameters|Conjecture|Hypothesis|Variable|Unset\s+Guard|bypass_check|Admit\s+Obligations|type-in-type|impredicative-set)\b")


class CheckFailure(Exception):
    """a step of the tie or the proof no longer checks"""

    def __init__(self, stage, what, detail=""):
        super().__init__(f"{stage}: {what}")
        self.stage, self.what, self.detail = stage, what, detail


def sh(cmd, cwd=None, timeout=1800, env=None, inp=None):
    t0 = time.time()
    p = subprocess.run(cmd, cwd=cwd, env=env or ENV, input=inp, capture_output=True, text=True, timeout=timeout,
                       shell=isinstance(cmd, str))
    return p.returncode, p.stdout, p.stderr, time.time() - t0


class Lock:
    def __enter__(self):
        os.makedirs(BUILD, exist_ok=True)
        self.f = open(os.path.join(BUILD, "lock"), "w")
        fcntl.flock(self.f, fcntl.LOCK_EX)
        return self

    def __exit__(self, *a):
        fcntl.flock(self.f, fcntl.LOCK_UN)
        self.f.close()


def log(msg):
    print(f"[check] {msg}", flush=True)


# ------------------------------------------------------------------ builds
def build_translator():
    rc, out, err, dt = sh(["cargo", "build", "--offline"], cwd=os.path.join(VERIF, "translator"))
    if rc != 0:
        raise RuntimeError("translator build failed (machinery error):\n" + err[-3000:])
    return dt


def run_translator():
    """regenerate coq/Gen from /repo's working tree"""
    exe = os.path.join(BUILD, "translator", "debug", "rs2v")
    os.makedirs(os.path.join(COQ, "Gen"), exist_ok=True)
    rc, out, err, dt = sh([exe, REPO, os.path.join(COQ, "Gen")])
    if rc != 0:
        raise CheckFailure("translate", "rs2v rejected the current source", (out + err)[-4000:])
    # the UAPI side of C19: tables from the installed kernel headers through the C compiler
    rc2, out2, err2, _ = sh([sys.executable, os.path.join(VERIF, "tools", "uapi_gen.py"), os.path.join(COQ, "Gen")])
    if rc2 != 0:
        raise CheckFailure("translate", "uapi_gen.py could not build the UAPI tables (names in vhost_binding.rs the header does not know?)", (out2 + err2)[-4000:])
    return out.strip()


def coq_makefile():
    mk = os.path.join(COQ, "Makefile")
    cp = os.path.join(COQ, "_CoqProject")
    if not os.path.exists(mk) or os.path.getmtime(mk) < os.path.getmtime(cp):
        rc, out, err, _ = sh(["coq_makefile", "-f", "_CoqProject", "-o", "Makefile"], cwd=COQ)
        if rc != 0:
            raise RuntimeError("coq_makefile failed: " + err)


def coq_build(targets, timeout=1200):
    """full .vo build of the given targets; returns (ok, output)"""
    coq_makefile()
    vo = [t[:-2] + ".vo" if t.endswith(".v") else t for t in targets]
    try:
        rc, out, err, dt = sh(["make", "-j16"] + vo, cwd=COQ, timeout=timeout)
    except subprocess.TimeoutExpired as e:
        # a proof that no longer terminates in time no longer checks
        for proc in ("coqc",):
            subprocess.run(["pkill", "-x", proc], capture_output=True)
        return False, f"the Coq build of {' '.join(vo)} did not finish within {timeout} s", float(timeout)
    return rc == 0, out + err, dt


def scan_forbidden():
    """grep the hand-written development for axioms / admits / disabled checks"""
    hits = []
    for root, _, files in os.walk(COQ):
        for f in files:
            if not f.endswith(".v"):
                continue
            p = os.path.join(root, f)
            txt = open(p).read()
            # strip comments (nesting-aware)
            txt = strip_comments(txt)
            for i, line in enumerate(txt.split("\n"), 1):
                m = FORBIDDEN.search(line)
                if m:
                    # `Variable`/`Hypothesis` are fine inside a Section: accept when the file has the line within a Section
                    if m.group(1) in ("Variable", "Hypothesis") and in_section(txt, i):
                        continue
                    hits.append(f"{os.path.relpath(p, VERIF)}:{i}: {line.strip()[:120]}")
    return hits


def strip_comments(txt):
    out, depth, i, n = [], 0, 0, len(txt)
    in_str = False
    while i < n:
        c = txt[i]
        if depth == 0 and c == '"':
            in_str = not in_str
            out.append(c)
            i += 1
            continue
        if not in_str and txt.startswith("(*", i):
            depth += 1
            i += 2
            continue
        if not in_str and depth > 0 and txt.startswith("*)", i):
            depth -= 1
            i += 2
            continue
        if depth == 0:
            out.append(c)
        elif c == "\n":
            out.append(c)
        i += 1
    return "".join(out)


def in_section(txt, lineno):
    depth = 0
    for i, line in enumerate(txt.split("\n"), 1):
        if i >= lineno:
            break
        if re.match(r"\s*Section\s+\w+", line):
            depth += 1
        elif re.match(r"\s*End\s+\w+", line) and depth > 0:
            depth -= 1
    return depth > 0


def theorem_stats(prop_file):
    """(theorems, assumption reports) of a Props file and lemma count of its Proofs cone"""
    txt = strip_comments(open(os.path.join(COQ, prop_file)).read())
    thms = re.findall(r"^\s*(?:Theorem|Corollary)\s+(\w+)", txt, re.M)
    return thms


def lemma_count(files):
    n = 0
    for f in files:
        p = os.path.join(COQ, f)
        if os.path.exists(p):
            txt = strip_comments(open(p).read())
            n += len(re.findall(r"^\s*(?:Lemma|Theorem|Corollary|Example|Fact|Remark|Proposition)\s+\w+", txt, re.M))
    return n


def assumptions_of(prop_file, build_output):
    """re-run coqc on the Props file alone to capture Print Assumptions output"""
    rc, out, err, _ = sh(["coqc", "-Q", ".", "VV", "-w", "-notation-overridden,-deprecated-hint-without-locality,-deprecated-instance-without-locality", prop_file], cwd=COQ, timeout=900)
    if rc != 0:
        return None, out + err
    txt = out
    closed = len(re.findall(r"Closed under the global context", txt))
    axioms = []
    for m in re.finditer(r"Axioms:\n((?:.+\n)+?)(?=\n|\Z|Closed|Axioms:)", txt):
        for line in m.group(1).split("\n"):
            mm = re.match(r"^(\S+)\s*:", line)
            if mm:
                axioms.append(mm.group(1))
    return (closed, sorted(set(axioms))), txt


def depends_on(coq_file, dep, _seen=None):
    """does coq/<coq_file> (transitively) import coq/<dep>?  Imports are all of the form `From VV Require Import A.B C.D.`"""
    seen = _seen if _seen is not None else set()
    if coq_file in seen:
        return False
    seen.add(coq_file)
    try:
        txt = open(os.path.join(COQ, coq_file)).read()
    except OSError:
        return False
    for m in re.finditer(r"From\s+VV\s+Require\s+(?:Import|Export)\s+", txt):
        rest = txt[m.end():]
        end = re.search(r"\.(\s|$)", rest)
        mods = rest[:end.start()] if end else rest
        for mod in mods.split():
            f = mod.replace(".", "/") + ".v"
            if f == dep or depends_on(f, dep, seen):
                return True
    return False


def build_model_eval():
    """extract Model.Run.run and build vv_eval"""
    od = os.path.join(BUILD, "ocaml")
    os.makedirs(od, exist_ok=True)
    rc, out, err, _ = sh(["coqc", "-Q", COQ, "VV", os.path.join(COQ, "Extract", "Extract.v")], cwd=od, timeout=600)
    if rc != 0:
        raise CheckFailure("extract", "extraction of the model failed", (out + err)[-3000:])
    src = open(os.path.join(od, "vv_model.ml")).read() + open(os.path.join(VERIF, "ocaml", "driver.ml")).read()
    h = hashlib.sha256(src.encode()).hexdigest()
    stamp = os.path.join(od, "stamp")
    exe = os.path.join(od, "vv_eval")
    if os.path.exists(exe) and os.path.exists(stamp) and open(stamp).read() == h:
        return exe
    sh(["cp", os.path.join(VERIF, "ocaml", "driver.ml"), od])
    rc, out, err, _ = sh("ocamlfind ocamlopt -O3 -w -a -package zarith -linkpkg vv_model.mli vv_model.ml driver.ml -o vv_eval",
                         cwd=od, timeout=600)
    if rc != 0:
        raise RuntimeError("ocaml build of vv_eval failed (machinery error):\n" + (out + err)[-3000:])
    open(stamp, "w").write(h)
    return exe


def build_harness(release=False):
    cmd = ["cargo", "build", "--offline"] + (["--release"] if release else [])
    rc, out, err, dt = sh(cmd, cwd=os.path.join(VERIF, "harness"), timeout=1500)
    if rc != 0:
        raise CheckFailure("harness-build", "the harness no longer builds against /repo (an API the harness uses changed)", err[-4000:])
    return os.path.join(BUILD, "harness", "release" if release else "debug", "vv-harness")


# ------------------------------------------------------------------ PRNG
class Rng:
    """xorshift64* ; every random choice of a run derives from one state"""

    def __init__(self, seed):
        self.s = (seed * 0x9E3779B97F4A7C15 + 0x1234567) & 0xFFFFFFFFFFFFFFFF or 1

    def next(self):
        x = self.s
        x ^= x >> 12
        x ^= (x << 25) & 0xFFFFFFFFFFFFFFFF
        x ^= x >> 27
        self.s = x
        return (x * 0x2545F4914F6CDD1D) & 0xFFFFFFFFFFFFFFFF

    def below(self, n):
        return self.next() % n if n > 0 else 0

    def choice(self, l):
        return l[self.below(len(l))]

    def chance(self, num, den):
        return self.below(den) < num

    def sample(self, l, k):
        """k distinct elements of l, in drawn order"""
        pool = list(l)
        out = []
        for _ in range(min(k, len(pool))):
            out.append(pool.pop(self.below(len(pool))))
        return out

    def bytes(self, n):
        return bytes(self.below(256) for _ in range(n))

    def shuffle(self, l):
        for i in range(len(l) - 1, 0, -1):
            j = self.below(i + 1)
            l[i], l[j] = l[j], l[i]


# ------------------------------------------------------------------ val syntax
def VN(n):
    return f"(VN {n})"


def VS(s):
    return f'(VS "{s}")'


def VH(b):
    return f'(VH "{bytes(b).hex()}")'


def VL(items):
    return "(VL [" + "; ".join(items) + "])"


def le(v, n):
    return int(v).to_bytes(n, "little")


def split_top(s):
    """top-level elements of a (VL [...]) term, as strings"""
    s = s.strip()
    if not s.startswith("(VL ["):
        return []
    body = s[5:-2]
    out, depth, cur, instr = [], 0, [], False
    for ch in body:
        if ch == '"':
            instr = not instr
        if not instr:
            if ch in "([":
                depth += 1
            elif ch in ")]":
                depth -= 1
            elif ch == ";" and depth == 0:
                out.append("".join(cur).strip())
                cur = []
                continue
        cur.append(ch)
    t = "".join(cur).strip()
    if t:
        out.append(t)
    return out


# ------------------------------------------------------------------ running cases
def run_lines(exe, lines, timeout=600, shards=1):
    if not lines:
        return []
    if shards <= 1 or len(lines) < 64:
        try:
            rc, out, err, _ = sh([exe], inp="\n".join(lines) + "\n", timeout=timeout)
        except subprocess.TimeoutExpired:
            # never hang: the cases of this shard are run one by one, a case that does not finish is an observation
            if len(lines) == 1:
                return ['(VS "harness-timeout")']
            res = []
            for ln in lines:
                res += run_lines(exe, [ln], 60, 1)
            return res
        res = out.split("\n")
        if res and res[-1] == "":
            res.pop()
        if len(res) != len(lines):
            raise RuntimeError(f"{os.path.basename(exe)} returned {len(res)} lines for {len(lines)} cases (rc={rc}): {err[-2000:]}")
        return res
    # shard
    import concurrent.futures
    k = (len(lines) + shards - 1) // shards
    parts = [lines[i:i + k] for i in range(0, len(lines), k)]
    with concurrent.futures.ThreadPoolExecutor(max_workers=shards) as ex:
        outs = list(ex.map(lambda p: run_lines(exe, p, timeout, 1), parts))
    return [x for o in outs for x in o]


def coq_recheck(cases, expected, tag):
    """re-evaluate a sample of cases inside Coq by vm_compute and compare with the extracted evaluator"""
    d = os.path.join(BUILD, "recheck")
    os.makedirs(d, exist_ok=True)
    path = os.path.join(d, f"cases_{tag}.v")
    body = ["From VV Require Import Base.Bits Base.Val Model.Run.", "Open Scope N_scope.",
            "Definition cases : list val := ["]
    body.append(";\n".join(cases))
    body.append("].\nDefinition expected : list val := [")
    body.append(";\n".join(expected))
    body.append("].\nGoal map run cases = expected. Proof. vm_compute. reflexivity. Qed.\n")
    open(path, "w").write("\n".join(body))
    rc, out, err, dt = sh(["coqc", "-noglob", "-Q", COQ, "VV", path], cwd=d, timeout=900)
    return rc == 0, (out + err)[-2000:]


# ------------------------------------------------------------------ evidence / violations
def write_evidence(pid, tier, seed, coverage, assumptions, wall, violations=0):
    os.makedirs(os.path.join(VERIF, "evidence"), exist_ok=True)
    ev = {
        "property_id": pid,
        "tier": tier,
        "seed": seed,
        "level": "proof",
        "coverage": coverage,
        "assumptions": assumptions,
        "wall_s": round(wall, 2),
        "violations": violations,
    }
    with open(os.path.join(VERIF, "evidence", f"{pid}.json"), "w") as f:
        json.dump(ev, f, indent=1)


def write_replay(pid, seed, n, payload):
    d = os.path.join(VERIF, "replays")
    os.makedirs(d, exist_ok=True)
    p = os.path.join(d, f"{pid}-{seed}-{n}.json")
    with open(p, "w") as f:
        json.dump(payload, f, indent=1)
    return p


def load_known():
    p = os.path.join(VERIF, "known_findings.json")
    if not os.path.exists(p):
        return []
    return json.load(open(p)).get("findings", [])
