# family "kern": operations of the kernel-vhost / net / vsock / vDPA backends with ioctl interposed (C19).
from .core import VN, VS, VH, VL
from .engine import Family

B64 = [0, 1, 0xfff, 0x1000, 2**31, 2**32 - 1, 2**32, 2**63, 2**64 - 0x1000, 2**64 - 1, 0x0123456789abcdef]
GPA0, GLEN, GPA1 = 0x10000, 0x20000, 0x100000


LAYOUTS = {0: [(0x10000, 0x20000), (0x100000, 0x1000)], 1: [(0x10000, 0x20000)], 2: [(0, 0x8000), (0x10000, 0x20000), (0x100000, 0x1000)]}


def case(backend, op, nums=(), data=b"", acked=0, lay=0):
    return [VS(backend), VS(op), VL([VN(x) for x in nums]), VH(data), VN(acked), VN(lay)]


def iotlb_bytes(v2, outer, iova, size, uaddr, perm, ty, junk=0):
    """the UAPI image as an independent writer (struct module) lays it out"""
    import struct
    inner = struct.pack("<QQQBB", iova, size, uaddr, perm, ty) + bytes([junk] * 38)
    if v2:
        return struct.pack("<II", outer, junk) + inner          # type, asid/reserved, 64-byte union
    return struct.pack("<I4x", outer) + inner                   # type, padding, 64-byte union


class Kern(Family):
    name = "kern"
    shards = 8
    spec = True

    def ring(self, rng, bad, lay=0):
        size = rng.choice([1, 2, 64, 256, 1024, 32768])
        mx = rng.choice([size, size, 32768, 65535])
        base = rng.choice([GPA0, GPA0 + 0x1000, GPA0 + 0x8000])
        if lay == 2 and size <= 64 and rng.chance(1, 3):
            base = 0
        d, a, u = base, base + 0x4000 if size <= 256 else base, base + 0x6000 if size <= 256 else base
        flags = rng.choice([0, 0, 1])
        has_log, log = (1, rng.choice(B64)) if flags & 1 or rng.chance(1, 4) else (0, 0)
        if bad:
            k = rng.below(8)
            if k == 0:
                size = rng.choice([0, 3, 100, 65535])
            elif k == 1:
                mx = max(0, size // 2)
            elif k == 2:
                flags, has_log = 1, 0
            elif k == 3:
                d = rng.choice([GPA0 + GLEN - 16, GPA0 - 16, 0, 2**64 - 8, GPA1 + 0x1000 - 16 * size])
            elif k == 4:
                a = rng.choice([GPA0 + GLEN - 4, 0x5000, 2**64 - 2])
            elif k == 5:
                u = rng.choice([GPA0 + GLEN - 8, GPA1 + 0xff8, 2**63])
            elif k == 6:
                d = GPA0 - 16 * size if size * 16 < GPA0 else 0      # the table ends inside guest memory but starts below it
            else:
                flags = rng.choice([2, 0x80000001])
        return [rng.choice([0, 1, 7, 255, 2**32 - 1]), mx, size, flags, d, u, a, has_log, log]

    def generate(self, rng, tier):
        out = []
        n = 1 if tier == "quick" else 6
        for backend in ("vsock", "net", "vdpa"):
            for _ in range(n):
                for op in ("get_features", "set_owner", "reset_owner"):
                    out.append((case(backend, op), "common"))
                for v in B64:
                    out.append((case(backend, "set_features", [v]), "common"))
                    out.append((case(backend, "set_log_base", [v]), "common"))
                for cnt in (0, 1, 2, 3, 8, 64, 255, 256, 300):
                    out.append((case(backend, "set_mem_table", [cnt, rng.choice(B64), rng.choice(B64), rng.choice(B64)]), "mem-table"))
                for q in (0, 1, 255, 65535, 2**32 - 1, 2**32 + 5):
                    out.append((case(backend, "set_vring_num", [q, rng.choice([0, 1, 256, 65535])]), "vring"))
                    out.append((case(backend, "set_vring_base", [q, rng.below(65536)]), "vring"))
                    out.append((case(backend, "get_vring_base", [q]), "vring"))
                    for op in ("set_vring_kick", "set_vring_call", "set_vring_err"):
                        out.append((case(backend, op, [q]), "vring-fd"))
                out.append((case(backend, "set_log_fd", [rng.choice([0, 5, 2**31 - 1])]), "common"))
                for i in range(12):
                    lay = i % 3
                    out.append((case(backend, "set_vring_addr", self.ring(rng, False, lay), lay=lay), "vring-addr"))
                    out.append((case(backend, "set_vring_addr", self.ring(rng, True, lay), lay=lay), "vring-addr-invalid"))
                # rings that touch the region another layout has and this one lacks
                for lay in (0, 1, 2):
                    for base in (0x100000, 0x0, 0x7f00, 0x100f00):
                        out.append((case(backend, "set_vring_addr", [1, 256, 4, 0, base, base + 0x80, base + 0x40, 0, 0], lay=lay), "vring-addr-layout"))
        for _ in range(n):
            for v in B64:
                out.append((case("vsock", "set_guest_cid", [v]), "vsock"))
            out += [(case("vsock", "start"), "vsock"), (case("vsock", "stop"), "vsock")]
            for q in (0, 1, 2**32 - 1):
                out += [(case("net", "set_backend", [q, 0]), "net"), (case("net", "set_backend", [q, 1]), "net")]
            for op in ("get_device_id", "get_status", "get_vring_num", "set_config_call", "get_iova_range", "get_config_size", "get_vqs_count",
                       "get_group_num", "get_as_num", "suspend", "get_backend_features"):
                out.append((case("vdpa", op), "vdpa"))
            for v in (0, 1, 0x7f, 0xff):
                out.append((case("vdpa", "set_status", [v]), "vdpa"))
            for off in (0, 4, 2**32 - 1):
                for ln in (0, 1, 6, 64, 256):
                    out.append((case("vdpa", "get_config", [off, ln]), "vdpa-config"))
                    out.append((case("vdpa", "set_config", [off], rng.bytes(ln)), "vdpa-config"))
            for q in (0, 3, 2**32 - 1):
                out += [(case("vdpa", "set_vring_enable", [q, e]), "vdpa") for e in (0, 1)]
                out.append((case("vdpa", "get_vring_group", [q]), "vdpa"))
                out.append((case("vdpa", "set_group_asid", [q, rng.choice([0, 1, 9, 2**32 - 1])]), "vdpa"))
            for v in B64:
                out.append((case("vdpa", "set_backend_features", [v]), "vdpa"))
            for acked in (0, 1, 2, 3, 6, 2**64 - 1):
                for _ in range(3):
                    out.append((case("vdpa", "dma_map", [rng.choice(B64), rng.choice(B64), rng.choice(B64), rng.below(2)], b"", acked), "iotlb"))
                    out.append((case("vdpa", "dma_unmap", [rng.choice(B64), rng.choice(B64)], b"", acked), "iotlb"))
                # every type / permission combination, written and parsed back
                for ty in range(0, 7):
                    for perm in range(0, 4):
                        vals = [rng.choice(B64), rng.choice(B64), rng.choice(B64), perm, ty]
                        out.append((case("vdpa", "iotlb_roundtrip" if (ty + perm) % 2 else "send_iotlb", vals, b"", acked), "iotlb-combos"))
                        out.append((case("vdpa", "iotlb_roundtrip", vals, b"", acked), "iotlb-combos"))
            # a negotiation the kernel refuses acknowledges nothing: the layout of the next message is that of what was
            # acknowledged before
            for acked in (0, 2, 3, 1):
                for feat in (0, 1, 2, 3, 2**64 - 1):
                    vals = [feat, rng.choice(B64), rng.choice(B64), rng.choice(B64), rng.below(4), 1 + rng.below(3)]
                    out.append((case("vdpa", "refused_features_iotlb", vals, b"", acked), "refused-negotiation"))
            # images as the kernel would hand them over, through the parsers: right and wrong outer type, empty inner type,
            # wrong length, union padding that is not zero
            for v2 in (0, 1):
                good = 2 if v2 else 1
                for outer in (good, 3 - good, 0, 0x101, 2**31):
                    for ty in (0, 1, 2, 6):
                        b = iotlb_bytes(v2, outer, rng.choice(B64), rng.choice(B64), rng.choice(B64), rng.below(4), ty, junk=rng.choice([0, 0xff]))
                        out.append((case("vdpa", "parse_iotlb", [v2], b), "iotlb-parse"))
                b = iotlb_bytes(v2, good, 1, 2, 3, 1, 2)
                out.append((case("vdpa", "parse_iotlb", [v2], b[:-8]), "iotlb-parse"))
                out.append((case("vdpa", "parse_iotlb", [1 - v2], b), "iotlb-parse"))
        return out

    def signature(self, args, obs):
        return "kern:" + args[0] + ":" + args[1]
