# family "dmn": control-message / kick histories against a real VhostUserDaemon.
from . import wire as W
from .core import VN, VS, VH, VL, split_top
from .engine import Family

PFB = W.VF_PROTOCOL_FEATURES


def st(kind, nums=(), data=b"", regions=()):
    return VL([VS(kind), VL([VN(x) for x in nums]), VH(data), VL([VL([VN(x) for x in r]) for r in regions])])


MASKSETS = {
    1: [[1]],
    2: [[3], [1, 2], [2, 1], [3, 3]],
    3: [[7], [5, 2], [1, 6], [4, 3], [0xff]],
    4: [[0xf], [5, 0xa], [9, 6], [1, 2, 0xc], [0xa, 0x5]],
    6: [[0x3f], [0x15, 0x2a], [0x21, 0x1e], [7, 0x38], [1, 6, 0x38], [0x2a, 0x3f]],
}


class Dmn(Family):
    name = "dmn"
    shards = 16
    spec = True

    def cfg(self, rng, nq=None):
        nq = nq or rng.choice([1, 2, 2, 3, 4, 6])
        masks = rng.choice(MASKSETS[nq])
        feat = PFB | rng.choice([0, 1 << 29, 3, (1 << 29) | W.VF_LOG_ALL])
        pfeat = W.PF_ALL
        return nq, [VN(nq), VN(256), VN(feat), VN(pfeat), VL([VN(m) for m in masks]), VN(rng.below(2))], feat, masks

    def ring_history(self, rng, depth):
        nq, cfg, feat, masks = self.cfg(rng)
        steps = []
        # distinct ring sizes as markers
        for q in range(nq):
            steps.append(st("set_vring_num", [q, 2 << q]))
        # acknowledgements on, so that every result says whether the daemon accepted the message
        steps.insert(0, st("set_protocol_features", [W.PF_ALL]))
        evn = [10]
        cur_kick = {}
        for _ in range(depth):
            k = rng.below(12)
            q = rng.below(nq) if rng.chance(9, 10) else rng.choice([nq, 255, 256])
            if k == 0:
                steps.append(st("set_features", [feat if rng.chance(1, 2) else feat & ~PFB]))
            elif k == 1:
                steps.append(st("set_features", [rng.choice([0, 1 << 29, feat | (1 << 40)])]))
            elif k in (2, 3):
                evn[0] += 1
                cur_kick[q] = evn[0]
                steps.append(st("set_vring_kick", [q, evn[0]]))
            elif k == 4:
                evn[0] += 1
                steps.append(st("set_vring_call", [q, evn[0]]))
            elif k in (5, 6):
                steps.append(st("set_vring_enable", [q, rng.below(2)]))
            elif k == 7:
                steps.append(st("get_vring_base", [q]))
                cur_kick.pop(q, None)
            elif k == 8:
                steps.append(st("reset_device"))
            elif k in (9, 10) and cur_kick:
                qq = rng.choice(sorted(cur_kick))
                steps.append(st("kick", [cur_kick[qq]]))
            else:
                steps.append(st("queue_state", [rng.below(nq)]))
        # kick every ring's current descriptor at the end and look at all rings
        for qq in sorted(cur_kick):
            steps.append(st("kick", [cur_kick[qq]]))
        for q in range(nq):
            steps.append(st("queue_state", [q]))
        return [VL(cfg), VL(steps)]

    def routing_case(self, rng, nq, masks, kind):
        feat = PFB
        cfg = [VN(nq), VN(256), VN(feat), VN(W.PF_ALL), VL([VN(m) for m in masks]), VN(kind)]
        steps = [st("set_protocol_features", [W.PF_ALL])]
        for q in range(nq):
            steps.append(st("set_vring_num", [q, 2 << q]))
        steps.append(st("set_features", [0]))            # no PROTOCOL_FEATURES: every ring enabled
        for q in range(nq):
            steps.append(st("set_vring_kick", [q, 100 + q]))
        order = list(range(nq))
        rng.shuffle(order)
        for q in order:
            steps.append(st("kick", [100 + q]))
        # custom listeners across the id range
        nth = len(masks)
        for lid in [nq, nq + 1, 255, 65535, 65536 + rng.below(nq + 1), 65536 + nq + 3, 2**32 + rng.below(nq + 1), 0]:
            t = rng.below(nth)
            steps.append(st("add_listener", [t, lid]))
            steps.append(st("fire_listener", [t, lid]))
        return [VL(cfg), VL(steps)]

    def generate(self, rng, tier):
        n = 400 if tier == "quick" else 4000
        out = [(self.ring_history(rng, 4 + rng.below(14)), "ring-history") for _ in range(n)]
        # routing: every mask set of the table x both vring kinds (complete), plus random mask sets
        for nq, sets in MASKSETS.items():
            for masks in sets:
                for kind in (0, 1):
                    out.append((self.routing_case(rng, nq, masks, kind), "routing"))
        for _ in range(40 if tier == "quick" else 600):
            nq = 1 + rng.below(6)
            masks = [rng.below(1 << (nq + 2)) for _ in range(1 + rng.below(3))]
            out.append((self.routing_case(rng, nq, masks, rng.below(2)), "routing-random"))
        return out

    def nontrivial(self, args, obs):
        return '(VL [(VL [(VN' in obs
