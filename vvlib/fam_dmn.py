# family "dmn": control-message / kick histories against a real VhostUserDaemon.
from . import wire as W
from .core import VN, VS, VH, VL, split_top
from .engine import Family

PFB = W.VF_PROTOCOL_FEATURES


def st(kind, nums=(), data=b"", regions=()):
    return VL([VS(kind), VL([VN(x) for x in nums]), VH(data), VL([VL([VN(x) for x in r]) for r in regions])])


MASKSETS = {
    1: [[1]],
    2: [[3], [1, 2], [2, 1], [3, 3]],
    3: [[7], [5, 2], [1, 6], [4, 3], [0xff]],
    4: [[0xf], [5, 0xa], [9, 6], [1, 2, 0xc], [0xa, 0x5]],
    6: [[0x3f], [0x15, 0x2a], [0x21, 0x1e], [7, 0x38], [1, 6, 0x38], [0x2a, 0x3f]],
}


class Dmn(Family):
    name = "dmn"
    shards = 16
    spec = True

    def cfg(self, rng, nq=None):
        nq = nq or rng.choice([1, 2, 2, 3, 4, 6])
        masks = rng.choice(MASKSETS[nq])
        feat = PFB | rng.choice([0, 1 << 29, 3, (1 << 29) | W.VF_LOG_ALL])
        pfeat = W.PF_ALL
        return nq, [VN(nq), VN(256), VN(feat), VN(pfeat), VL([VN(m) for m in masks]), VN(rng.below(4))], feat, masks

    def ring_history(self, rng, depth):
        nq, cfg, feat, masks = self.cfg(rng)
        steps = []
        # distinct ring sizes as markers
        for q in range(nq):
            steps.append(st("set_vring_num", [q, 2 << q]))
        # acknowledgements on, so that every result says whether the daemon accepted the message
        steps.insert(0, st("set_protocol_features", [W.PF_ALL]))
        evn = [10]
        cur_kick = {}
        for _ in range(depth):
            k = rng.below(12)
            q = rng.below(nq) if rng.chance(9, 10) else rng.choice([nq, 255, 256])
            if k == 0:
                steps.append(st("set_features", [feat if rng.chance(1, 2) else feat & ~PFB]))
            elif k == 1:
                steps.append(st("set_features", [rng.choice([0, 1 << 29, feat | (1 << 40)])]))
            elif k in (2, 3):
                evn[0] += 1
                cur_kick[q] = evn[0]
                steps.append(st("set_vring_kick", [q, evn[0]]))
            elif k == 4:
                evn[0] += 1
                steps.append(st("set_vring_call", [q, evn[0]]))
            elif k in (5, 6):
                steps.append(st("set_vring_enable", [q, rng.below(2)]))
            elif k == 7:
                steps.append(st("get_vring_base", [q]))
                old = cur_kick.pop(q, None)
                if old is not None and rng.chance(1, 2):
                    # the guest still holds the descriptor the stopped ring has given up: a kick on it reaches nobody
                    steps.append(st("kick", [old]))
                    steps.append(st("queue_state", [q if q < nq else 0]))
            elif k == 8 and rng.chance(1, 2):
                # polling mode: the ring gives its kick descriptor up; a later SET_VRING_KICK installs a new one
                steps.append(st("set_vring_kick_nofd", [q if q < 256 else 0]))
                cur_kick.pop(q, None)
                if q < nq and rng.chance(2, 3):
                    # ... and gets a new descriptor right away
                    evn[0] += 1
                    cur_kick[q] = evn[0]
                    steps.append(st("set_vring_kick", [q, evn[0]]))
                    steps.append(st("kick", [evn[0]]))
            elif k == 8:
                steps.append(st("reset_device"))
            elif k in (9, 10) and cur_kick:
                qq = rng.choice(sorted(cur_kick))
                steps.append(st("kick", [cur_kick[qq]]))
            else:
                steps.append(st("queue_state", [rng.below(nq)]))
        # kick every ring's current descriptor at the end and look at all rings
        for qq in sorted(cur_kick):
            steps.append(st("kick", [cur_kick[qq]]))
        for q in range(nq):
            steps.append(st("queue_state", [q]))
        return [VL(cfg), VL(steps + [st("teardown")])]


    # ---- memory table / ring configuration histories (C13, C14) ----
    GPAS = [0x0, 0x1000, 0x2000, 0x3000, 0x10000, 0x11000, 0x100000000, 0xfffffffffffe0000, 0x10008, 0x20001]
    SIZES = [0x1000, 0x2000, 0x3000, 0x1800, 0x1000, 0x2000]
    OFFS = [0, 0x1000, 0x4000, 0x2000, 0x800, 0x1800]
    UAS = [0x7f0000000000, 0x7f0000100000, 0x7f0000200000, 0xffffffffffff0000, 0x10000, 0x7f0000300010, 0x8000000000000000]

    lowmem = False

    def region(self, rng, bad=False):
        gpa = rng.choice(self.GPAS[:8]) if rng.chance(9, 10) else rng.choice(self.GPAS)
        if self.lowmem and not bad and rng.chance(19, 20):
            gpa = rng.choice(self.GPAS[:7])
        size = rng.choice(self.SIZES)
        if self.lowmem and not bad and rng.chance(1, 3):
            # regions whose first page is not the first bit of a log byte and whose last page lies in a later byte
            gpa = rng.choice([0x5000, 0x6000, 0x7000, 0xd000, 0xe000, 0xf000, 0x16000])
            size = rng.choice([0x2000, 0x3000, 0x4000, 0x4000])
        off = rng.choice(self.OFFS[:4]) if not bad else rng.choice(self.OFFS)
        ua = rng.choice(self.UAS) + 0x10000 * rng.below(4)
        if ua + size >= 2**64:
            ua = 0xffffffffffff0000
        f = 1 + rng.below(3)
        return [gpa, size, ua, off, f]

    def probes(self, rng, table):
        """guest-physical probe addresses at the edges of the believed regions"""
        if not table or rng.chance(1, 8):
            return rng.choice(self.GPAS) + rng.choice([0, 8, 0xff8, 0x1000])
        r = rng.choice(table)
        return (r[0] + rng.choice([0, 8, 0x10, r[1] - 8, r[1] - 4, r[1], r[1] // 2, 0x800, -8, 0xff8, 0xffc, 0xff0, 0x1000, 0x1ff8])) % 2**64

    def uprobe(self, rng, table, align):
        if not table or rng.chance(1, 10):
            return (rng.choice(self.UAS) + rng.choice([0, 0x40])) & ~(align - 1)
        r = rng.choice(table)
        d = rng.choice([0, 0x10, 0x40, 0x100, r[1] - 0x10, r[1] - 0x40, r[1], r[1] + 0x10, 0x800, -0x10, 0xff0])
        return ((r[2] + d) % 2**64) & ~(align - 1)

    def mem_history(self, rng, depth):
        nq, cfg, feat, masks = self.cfg(rng)
        maxq = rng.choice([256, 256, 64, 1024, 32768])
        cfg[1] = VN(maxq)
        steps = [st("set_protocol_features", [W.PF_ALL])]
        for f, sz in ((1, 0x8000), (2, 0x8000), (3, 0x8000), (4, 0x40000)):
            steps.append(st("file_size", [f, sz]))
        self.lowmem = logging = rng.chance(1, 2)      # histories with a dirty log keep guest memory where a log can cover it
        log = [None]
        def log_reads():
            if log[0] is None:
                return
            size, off = log[0]
            words = sorted({(r[0] // 4096) // 8 for r in table} | {((r[0] + r[1] - 1) // 4096) // 8 for r in table})
            for w in words[:4]:
                if w < size + 2:
                    steps.append(st("guest_read", [4, max(0, off + w - 1), 4]))
            steps.append(st("guest_read", [4, max(0, off - 2), 4]))
            steps.append(st("guest_read", [4, max(0, off + size - 2), 4]))
        table = []
        addressed = set()
        gone = []                           # regions that were in the table earlier
        ev = [200]
        calls = {}
        failing = rng.chance(1, 3)          # whether this history ends with deliberately failing operations
        def table_op(bad):
            k = rng.below(6)
            if k <= 1 or not table:
                n = rng.choice([1, 1, 2, 2, 3, 4, 8 if bad else 3])
                regs = []
                while len(regs) < n:
                    r = self.region(rng, bad)
                    if bad or all(r[0] + r[1] <= x[0] or x[0] + x[1] <= r[0] for x in regs):
                        if bad or all(r[2] + r[1] <= x[2] or x[2] + x[1] <= r[2] for x in regs):
                            regs.append(r)
                if not bad or rng.chance(1, 2):
                    regs.sort()
                if not bad and rng.chance(1, 3):
                    # regions adjacent in the frontend's address space but not in guest-physical space
                    for i in range(1, len(regs)):
                        ua = regs[i - 1][2] + regs[i - 1][1]
                        if ua + regs[i][1] < 2**64 and all(ua + regs[i][1] <= x[2] or x[2] + x[1] <= ua for j, x in enumerate(regs) if j != i):
                            regs[i][2] = ua
                elif rng.chance(1, 2):
                    regs.append(list(regs[0]))
                steps.append(st("set_mem_table", [], b"", regs))
                if not bad:
                    gone.extend(table)
                    table[:] = regs
            elif k <= 3:
                r = self.region(rng, bad)
                if not bad:
                    for _ in range(20):
                        if all(r[0] + r[1] <= x[0] or x[0] + x[1] <= r[0] for x in table) and \
                           all(r[2] + r[1] <= x[2] or x[2] + x[1] <= r[2] for x in table):
                            break
                        r = self.region(rng, bad)
                    else:
                        return
                    table.append(r)
                elif table and rng.chance(1, 2):
                    r = list(rng.choice(table))       # duplicate
                steps.append(st("add_mem", r))
            else:
                if bad:
                    r = list(rng.choice(table)) if table and rng.chance(2, 3) else self.region(rng)
                    if rng.chance(1, 2):
                        r[1] = r[1] + 0x1000 if rng.chance(1, 2) else max(0x800, r[1] - 0x800)
                    else:
                        r[0] = (r[0] + 0x1000) % 2**64
                else:
                    r = rng.choice(table)
                    table.remove(r)
                    gone.append(r)
                steps.append(st("rem_mem", r))
                if not bad and rng.chance(1, 2):
                    # the same guest range comes back under another user address
                    for _ in range(10):
                        ua = rng.choice(self.UAS) + 0x10000 * rng.below(4)
                        if ua + r[1] < 2**64 and all(ua + r[1] <= x[2] or x[2] + x[1] <= ua for x in table + gone):
                            n = [r[0], r[1], ua, r[3], r[4]]
                            table.append(n)
                            steps.append(st("add_mem", n))
                            break
        table_op(False)
        for i in range(depth):
            k = rng.below(21)
            q = rng.below(nq) if rng.chance(9, 10) else rng.choice([nq, 255, 256, 70000])
            late = failing and i >= depth - 3
            if k <= 2:
                table_op(late and rng.chance(2, 3))
                steps.append(st("snapshot"))
            elif k == 3:
                steps.append(st("guest_write", [1 + rng.below(3), rng.choice([0, 0x1000, 0x1ff8, 0x4000, 0x2ffc])], rng.bytes(8)))
            elif k == 4:
                steps.append(st("write_mem", [self.probes(rng, table)], rng.bytes(rng.choice([8, 8, 4, 16, 1]))))
            elif k == 5:
                steps.append(st("read_mem", [self.probes(rng, table), rng.choice([8, 8, 4, 16])]))
            elif k == 6:
                steps.append(st("guest_read", [1 + rng.below(3), rng.choice([0, 0x1000, 0x1ff8, 0x4000, 0x2ffc, 0x7ffc]), 8]))
            elif k == 7:
                n = rng.choice([0, 1, 2, 3, 8, 16, 64, 100, 128, 255, 256, 257, 1024, 32768, 65535, maxq, maxq + 1, maxq // 2])
                if not late and rng.chance(3, 4):
                    n = rng.choice([x for x in (1, 2, 8, 16, 64, 256, 1024, 32768) if x <= maxq] + [3, 100])
                    n = min(n, maxq)
                if rng.chance(1, 2):
                    # a reply-bearing request first: its answer shows that the daemon is serving, so that a refusal of
                    # the size that follows is the handler's own
                    steps.append(st("get_queue_num"))
                steps.append(st("set_vring_num", [q, n & 0xffff]))
            elif k == 8:
                steps.append(st("set_vring_base", [q, rng.choice([0, 1, 7, 255, 256, 65535, rng.below(65536)])]))
            elif k in (9, 10, 11):
                d = self.uprobe(rng, table, 16)
                a = self.uprobe(rng, table, 2)
                u = self.uprobe(rng, table, 4)
                stale = [g for g in gone if g not in table]
                if stale and rng.chance(1, 4):
                    # addresses inside a region that is no longer part of the table
                    r = rng.choice(stale)
                    d, a, u = r[2], r[2] + 0x100, r[2] + 0x200
                    if rng.chance(1, 2) and table:
                        d = rng.choice(table)[2]
                elif not late and table and rng.chance(3, 4):
                    r = rng.choice(table)
                    d, a, u = r[2], r[2] + 0x100, r[2] + rng.choice([0x200, 0x400, r[1] - 0x100])
                    # the used index the guest left in memory
                    fo = r[3] + (u + 2 - r[2])
                    if rng.chance(2, 3):
                        steps.append(st("guest_write", [r[4], fo], bytes([rng.below(256), rng.below(256)])))
                steps.append(st("set_vring_addr", [q, rng.choice([0, 0, 1]), d, u, a]))
                steps.append(st("queue_state", [q if q < nq else 0]))
                if q < nq:
                    addressed.add(q)
            elif k == 12:
                steps.append(st("queue_state", [rng.below(nq)]))
            elif k == 13:
                # mostly on rings whose addresses a SET_VRING_ADDR of this history determined: an add_used on a ring with
                # undetermined addresses writes somewhere the oracle cannot follow and switches the byte oracle off
                qq = rng.choice(sorted(addressed)) if addressed and rng.chance(9, 10) else rng.below(nq)
                if addressed or rng.chance(1, 4):
                    steps.append(st("add_used", [qq, rng.choice([0, 1, 5, 63, 255, 256, 1023, 65535]), rng.below(2**32)]))
            elif k == 14:
                ev[0] += 1
                calls[q] = ev[0]
                steps.append(st("set_vring_call", [q, ev[0]]))
            elif k == 15:
                steps.append(st("signal", [rng.below(nq)]))
                if calls:
                    steps.append(st("read_call", [rng.choice(sorted(calls.values()))]))
            elif k == 16:
                steps.append(st("get_vring_base", [q]))
            elif k == 17:
                steps.append(st("set_features", [rng.choice([feat, feat & ~(1 << 29), feat | (1 << 29), feat & ~PFB, 0, feat | (1 << 41)])]))
            elif k == 18:
                steps.append(st("regions"))
                steps.append(st("snapshot"))
                steps.append(st("backend_log"))
            elif k == 19 and logging:
                need = max([((r[0] + r[1] - 1) // 4096) // 8 + 1 for r in table] or [1])
                size = rng.choice([need, need, need + 1, 0x20100, 0x1000 if need <= 0x1000 else need])
                off = rng.choice([0, 0, 0x1000, 0x3000])
                if late or rng.chance(1, 5):
                    size = rng.choice([max(1, need - 1), max(1, need - 1), 0, need])
                    off = rng.choice([0, 0x800, 0x1000])
                if off + size <= 0x40000:
                    steps.append(st("set_log_base", [size, off, 4]))
                    if size >= need and off % 0x1000 == 0 and size > 0:
                        log[0] = (size, off)
                    if table and size >= need and off % 0x1000 == 0 and size > 0 and rng.chance(1, 3):
                        # rounds of concurrent writers on pages whose bits share one log byte (each round starts from a
                        # cleared byte): no bit may ever be missing; then the same writes once more as a plain step, which
                        # is what the model and the byte oracle account for
                        cands = [r for r in table if r[1] >= 0x2000 and (r[0] // 4096) % 8 + 1 < 8]
                        if cands:
                            r = rng.choice(cands)
                            p0 = r[0] // 4096
                            npages = min(r[1] // 4096, 8 - p0 % 8, 2 + rng.below(7))
                            if npages >= 2:
                                gpas = [r[0] + 4096 * i + rng.choice([0, 8, 0xff0]) for i in range(npages)]
                                d = rng.bytes(1)
                                steps.append(st("par_stress", [4, off + p0 // 8, 3000] + gpas, d))
                                steps.append(st("par_write", gpas, d))
                    if table and rng.chance(1, 2):
                        # 2..16 concurrent writers on pages that share log bytes
                        r = rng.choice(table)
                        pages = max(1, r[1] // 4096)
                        nw = 2 + rng.below(15)
                        gpas = [r[0] + 4096 * (i % pages) + 16 * i for i in range(nw)]
                        steps.append(st("par_write", gpas, rng.bytes(8)))
                    big = [r for r in table if r[1] >= 0x2000]
                    if big and rng.chance(2, 3):
                        # a write that ends exactly on an inner page boundary, one that starts on it, one that crosses it
                        r = rng.choice(big)
                        d = rng.choice([(0xff8, 8), (0x1000, 8), (0xffc, 8), (0xfff, 1), (0xff0, 16), (0xfff, 2)])
                        steps.append(st("write_mem", [r[0] + d[0]], rng.bytes(d[1])))
                    # a few writes right away, then a look at the log
                    for _ in range(1 + rng.below(3)):
                        steps.append(st("write_mem", [self.probes(rng, table)], rng.bytes(rng.choice([8, 8, 4, 16, 1]))))
                    log_reads()
            elif k == 19:
                steps.append(st("read_mem", [self.probes(rng, table), 8]))
            else:
                log_reads()
        if log[0] is not None and rng.chance(1, 2):
            # the memory table changes while the log is in force: writes into the new memory must still be logged
            table_op(False)
            for r in table[-2:]:
                steps.append(st("write_mem", [r[0] + rng.choice([0, 8, r[1] - 8, r[1] // 2])], rng.bytes(8)))
        if failing and rng.chance(1, 2):
            # the connection died on a refused request: a new frontend connects to the same daemon, negotiates again and
            # looks at what the refused request left behind - the previous table must still be the one in force, for
            # guest memory and for the translation of ring addresses alike
            bad = self.region(rng, True)
            if table and rng.chance(2, 3):
                # an ADD_MEM_REG that overlaps an existing region in guest-physical space under a user range of its own
                r0 = rng.choice(table)
                bad = [r0[0], r0[1], 0x7f0000800000 + 0x10000 * rng.below(4), r0[3], r0[4]]
            which = rng.below(4) if table else 3
            if which == 0:
                # ... or a SET_MEM_TABLE that is refused only after its first region has been looked at: the first region
                # describes the guest range of an accepted region under another user range, the second one overlaps it
                r0 = rng.choice(table)
                ua2 = 0x7f0000a00000 + 0x10000 * rng.below(4)
                bad = [r0[0], r0[1], ua2, r0[3], r0[4]]
                steps.append(st("set_mem_table", [], b"", [bad, [r0[0] + 0x1000 if r0[1] > 0x1000 else r0[0], 0x1000, ua2 + 0x100000, 0, r0[4]]]))
            elif which == 1:
                # ... or a REM_MEM_REG that names a mapped region with another size: refused, the region stays
                r0 = rng.choice(table)
                steps.append(st("rem_mem", [r0[0], r0[1] + 0x1000 if rng.chance(1, 2) else max(0x800, r0[1] - 0x800), r0[2], r0[3], r0[4]]))
            else:
                steps.append(st("add_mem", bad))
            steps.append(st("reconnect"))
            steps.append(st("set_protocol_features", [W.PF_ALL]))
            q0 = rng.below(nq)
            steps.append(st("set_vring_addr", [q0, 0, bad[2], bad[2] + 0x200, bad[2] + 0x100]))
            steps.append(st("queue_state", [q0]))
            for r in table[:2]:
                steps.append(st("set_vring_addr", [q0, 0, r[2], r[2] + 0x200, r[2] + 0x100]))
                steps.append(st("queue_state", [q0]))
                steps.append(st("write_mem", [r[0] + 0x20], rng.bytes(8)))
                steps.append(st("guest_read", [r[4], r[3] + 0x20, 8]))
            steps.append(st("regions"))
            steps.append(st("snapshot"))
            if log[0] is not None and rng.chance(1, 2):
                # memory added on the new connection is still logged into the log that was accepted on the old one
                for _ in range(10):
                    n = self.region(rng)
                    if all(n[0] + n[1] <= x[0] or x[0] + x[1] <= n[0] for x in table) and \
                       all(n[2] + n[1] <= x[2] or x[2] + x[1] <= n[2] for x in table + gone) and n[0] != bad[0]:
                        steps.append(st("add_mem", n))
                        table.append(n)
                        steps.append(st("write_mem", [n[0] + 8], rng.bytes(8)))
                        break
                log_reads()
        if log[0] is not None and table and rng.chance(1, 3):
            # a second SET_LOG_BASE that must be refused (its window covers the lowest region at most): the log in force
            # stays in force for every region, and writes after the refusal are still recorded in it
            lo = min(table, key=lambda r: r[0])
            small = max(1, ((lo[0] + lo[1] - 1) // 4096) // 8 + 1)
            need = max(((r[0] + r[1] - 1) // 4096) // 8 + 1 for r in table)
            if small < need or rng.chance(1, 2):
                steps.append(st("set_log_base", [min(small, need - 1) if need > 1 else 0, 0x8000, 4]))
                for r in table[:3]:
                    steps.append(st("write_mem", [r[0] + rng.choice([0, 0x1000 if r[1] > 0x1000 else 8])], rng.bytes(8)))
                log_reads()
        if rng.chance(1, 5):
            # a table that is valid region by region but not listed in ascending guest order, every region backed by its
            # own file with known content: refused, or accepted with every region showing its own file
            n = 2 + rng.below(2)
            gs = sorted(rng.sample([0x0, 0x2000, 0x10000, 0x12000, 0x20000], n), reverse=True)
            if rng.chance(1, 3) and n == 3:
                gs = [gs[1], gs[2], gs[0]]
            regs = []
            for i, g in enumerate(gs):
                f = 1 + i
                off = rng.choice([0, 0x1000, 0x2000])
                steps.append(st("guest_write", [f, off], bytes([0xc0 + f] * 8)))
                regs.append([g, 0x1000, 0x7f0000400000 + 0x10000 * i, off, f])
            steps.append(st("set_mem_table", [], b"", regs))
            for r in regs:
                steps.append(st("read_mem", [r[0], 8]))
            steps.append(st("write_mem", [regs[0][0] + 0x10], bytes([0x5a] * 8)))
            steps.append(st("guest_read", [regs[0][4], regs[0][3] + 0x10, 8]))
            steps.append(st("guest_read", [regs[-1][4], regs[-1][3] + 0x10, 8]))
        steps.append(st("regions"))
        steps.append(st("snapshot"))
        steps.append(st("backend_log"))
        log_reads()
        for r in table[:3]:
            steps.append(st("read_mem", [r[0] + r[1] - 8, 8]))
            steps.append(st("guest_read", [r[4], r[3], 8]))
        for q in range(nq):
            steps.append(st("queue_state", [q]))
        for c in sorted(set(calls.values())):
            steps.append(st("read_call", [c]))
        steps.append(st("panics"))
        return [VL(cfg), VL(steps + [st("teardown")])]

    # ---- adversarial field values (C05): well-typed messages whose 64-bit fields sit on the boundaries ----
    B64 = [0, 1, 0xfff, 0x1000, 0x1001, 2**31, 2**32 - 1, 2**32, 2**48, 2**63 - 1, 2**63, 2**64 - 0x2000, 2**64 - 0x1000,
           2**64 - 0xfff, 2**64 - 2, 2**64 - 1]
    SMALL = [0, 0x1000, 0x2000, 0x10000, 2**32]

    def adv_region(self, rng):
        pick = lambda: rng.choice(self.B64) if rng.chance(1, 2) else rng.choice(self.SMALL)
        size = rng.choice([0x1000, 0x2000, 1, 0xfff, 2**32, 2**48, 2**63, 2**64 - 1, 0x1000])
        return [pick(), size, pick(), rng.choice([0, 0x1000, 0x800, 2**32, 2**63, 2**64 - 0x1000]), 1 + rng.below(3)]

    def adv_history(self, rng):
        nq, cfg, feat, masks = self.cfg(rng)
        steps = [st("set_protocol_features", [W.PF_ALL])]
        for f, sz in ((1, 0x8000), (2, 0x8000), (3, 0x8000), (4, 0x40000)):
            steps.append(st("file_size", [f, sz]))
        if rng.chance(1, 2):
            # a sane table first, possibly at the top of the user address space
            ua = rng.choice([0x7f0000000000, 2**64 - 0x3000, 2**64 - 0x2001])
            steps.append(st("set_mem_table", [], b"", [[0x10000, 0x2000, ua, 0, 1]]))
            if rng.chance(1, 2):
                base = ua
                d = rng.choice([0, 0x1000, 0x1ff0, 0x2000, 0x2ff0, 2**64 - ua - 16]) 
                a = [(base + d) % 2**64 & ~15, (base + rng.choice([0x100, 0x2000, 0x3000])) % 2**64 & ~3, (base + 0x200) % 2**64 & ~1]
                steps.append(st("set_vring_addr", [rng.below(nq), 0, a[0], a[1], a[2]]))
        for _ in range(1 + rng.below(3)):
            k = rng.below(8)
            q = rng.choice([0, nq - 1, nq, 255, 256, 2**16, 2**32 - 1, 2**32, 2**64 - 1])
            if k == 0:
                n = rng.choice([1, 2, 2, 8, 33])
                steps.append(st("set_mem_table", [], b"", [self.adv_region(rng) for _ in range(n)]))
            elif k == 1:
                steps.append(st("add_mem", self.adv_region(rng)))
            elif k == 2:
                steps.append(st("rem_mem", self.adv_region(rng)))
            elif k == 3:
                steps.append(st("set_log_base", [rng.choice(self.B64), rng.choice([0, 0x1000, 0x800, 2**63, 2**64 - 0x1000, 2**32]), 4]))
            elif k == 4:
                steps.append(st("set_vring_addr", [q, rng.choice([0, 1, 2, 2**31]), rng.choice(self.B64) & ~15, rng.choice(self.B64) & ~3, rng.choice(self.B64) & ~1]))
            elif k == 5:
                steps.append(st(rng.choice(["set_vring_num", "set_vring_base"]), [q, rng.choice([0, 1, 255, 256, 32768, 65535])]))
            elif k == 6:
                steps.append(st("set_features", [rng.choice(self.B64)]))
            else:
                steps.append(st(rng.choice(["set_vring_enable", "get_vring_base", "set_vring_kick", "set_vring_call"]), [q, rng.choice([0, 1, 2, 300])]))
        steps += [st("panics"), st("regions"), st("backend_log")]
        for qq in range(nq):
            steps.append(st("queue_state", [qq]))
        return [VL(cfg), VL(steps + [st("teardown")])]

    # ---- the backend-request channel inherits the negotiated settings (C14) ----
    def beq_history(self, rng):
        nq, cfg, feat, masks = self.cfg(rng)
        pf = (1 << 3) | (1 << 5)            # REPLY_ACK (so that results are acknowledged) + BACKEND_REQ
        if rng.chance(1, 2):
            pf |= 1 << 18                          # SHARED_OBJECT
        if rng.chance(1, 2):
            pf |= 1 << 21                          # SHMEM
        if rng.chance(1, 6):
            pf &= ~(1 << 5)                        # channel not negotiated: the message is refused
        steps = [st("set_protocol_features", [pf])]
        order = [st("set_backend_req"), st("proxy_probe", [0]), st("proxy_probe", [1])]
        if rng.chance(1, 3):
            # the settings are those at the time the channel is attached: a later re-negotiation does not change it
            order.insert(1, st("set_protocol_features", [pf ^ (1 << 18) ^ (1 << 21)]))
        if rng.chance(1, 4):
            order = [st("proxy_probe", [0])] + order
        steps += order + [st("proxy_probe", [rng.below(2)]), st("panics")]
        return [VL(cfg), VL(steps + [st("teardown")])]

    def log_keepalive_history(self, rng):
        """C15: the accepted log stays in force while the memory table is empty in between (SET_LOG_BASE before the
        first table, or the last region removed and memory added again): writes into the memory installed afterwards
        must still be recorded"""
        nq, cfg, feat, masks = self.cfg(rng)
        steps = [st("set_protocol_features", [W.PF_ALL])]
        for f, sz in ((1, 0x8000), (2, 0x8000), (3, 0x8000), (4, 0x40000)):
            steps.append(st("file_size", [f, sz]))
        size = rng.choice([1, 2, 8, 0x1000])
        off = rng.choice([0, 0x1000, 0x3000])
        pages = min(size * 8, 16)
        def reg(i, f):
            g = 0x1000 * rng.below(max(1, pages - 1))
            return [g, 0x1000 * rng.choice([1, 1, 2]) if g + 0x2000 <= pages * 0x1000 else 0x1000, 0x7f0000000000 + 0x100000 * i, rng.choice([0, 0x1000]), f]
        r1 = reg(0, 1)
        k = rng.below(3)
        if k == 0:
            # the log is accepted while there is no memory at all
            steps.append(st("set_log_base", [size, off, 4]))
            steps.append(st("set_mem_table", [], b"", [r1]))
            cur = [r1]
        else:
            steps.append(st("set_mem_table", [], b"", [r1]))
            steps.append(st("set_log_base", [size, off, 4]))
            steps.append(st("write_mem", [r1[0] + 8], rng.bytes(8)))
            if k == 1:
                steps.append(st("rem_mem", r1))
            else:
                steps.append(st("set_mem_table", [], b"", []))
            r2 = reg(1, 2)
            steps.append(st("add_mem", r2))
            cur = [r2]
        steps.append(st("regions"))
        for r in cur:
            steps.append(st("write_mem", [r[0] + rng.choice([0, 8, r[1] - 8])], rng.bytes(8)))
        words = sorted({(r[0] // 4096) // 8 for r in cur} | {((r[0] + r[1] - 1) // 4096) // 8 for r in cur})
        for w in words[:4]:
            steps.append(st("guest_read", [4, max(0, off + w - 1), 4]))
        steps.append(st("guest_read", [4, off, 4]))
        steps.append(st("backend_log"))
        steps.append(st("panics"))
        return [VL(cfg), VL(steps + [st("teardown")])]

    def resize_history(self, rng):
        # a ring is resized several times, down and up again within the backend's maximum, with the odd refused size
        nq, cfg, feat, masks = self.cfg(rng)
        maxq = 256
        steps = [st("set_protocol_features", [W.PF_ALL]), st("set_features", [feat])]
        for _ in range(3 + rng.below(6)):
            q = rng.below(nq)
            n = rng.choice([1, 2, 4, 8, 16, 32, 64, 128, 256]) if rng.chance(7, 8) else rng.choice([0, 3, 100, 257, 512, 65535])
            steps.append(st("get_queue_num"))
            steps.append(st("set_vring_num", [q, n]))
            steps.append(st("queue_state", [q]))
            if n == 0 or n > maxq or n & (n - 1):
                steps.append(st("reconnect"))
                steps.append(st("set_features", [feat]))
                steps.append(st("set_protocol_features", [W.PF_ALL]))
        for q in range(nq):
            steps.append(st("queue_state", [q]))
        return [VL(cfg), VL(steps + [st("teardown")])]

    def routing_case(self, rng, nq, masks, kind):
        feat = PFB
        cfg = [VN(nq), VN(256), VN(feat), VN(W.PF_ALL), VL([VN(m) for m in masks]), VN(kind)]
        steps = [st("set_protocol_features", [W.PF_ALL])]
        for q in range(nq):
            steps.append(st("set_vring_num", [q, 2 << q]))
        steps.append(st("set_features", [0]))            # no PROTOCOL_FEATURES: every ring enabled
        for q in range(nq):
            steps.append(st("set_vring_kick", [q, 100 + q]))
        order = list(range(nq))
        rng.shuffle(order)
        for q in order:
            steps.append(st("kick", [100 + q]))
        # custom listeners across the id range
        nth = len(masks)
        for lid in [nq, nq + 1, 255, 65535, 65536 + rng.below(nq + 1), 65536 + nq + 3, 2**32 + rng.below(nq + 1), 0]:
            t = rng.below(nth)
            steps.append(st("add_listener", [t, lid]))
            steps.append(st("fire_listener", [t, lid]))
        return [VL(cfg), VL(steps + [st("teardown")])]

    def generate(self, rng, tier):
        n = 400 if tier == "quick" else 4000
        out = [(self.ring_history(rng, 4 + rng.below(14)), "ring-history") for _ in range(n)]
        out += [(self.mem_history(rng, 4 + rng.below(16)), "mem-history") for _ in range(n)]
        out += [(self.adv_history(rng), "adversarial") for _ in range(n)]
        out += [(self.beq_history(rng), "backend-req-channel") for _ in range(n // 8)]
        out += [(self.resize_history(rng), "ring-resize") for _ in range(n // 8)]
        out += [(self.log_keepalive_history(rng), "log-keepalive") for _ in range(n // 8)]
        # routing: every mask set of the table x both vring kinds (complete), plus random mask sets
        for nq, sets in MASKSETS.items():
            for masks in sets:
                for kind in (0, 1, 2, 3):
                    out.append((self.routing_case(rng, nq, masks, kind), "routing"))
        for _ in range(40 if tier == "quick" else 600):
            nq = 1 + rng.below(6)
            masks = [rng.below(1 << (nq + 2)) for _ in range(1 + rng.below(3))]
            out.append((self.routing_case(rng, nq, masks, rng.below(4)), "routing-random"))
        # workers whose mask names no existing queue (appended last: the cases above keep their random choices)
        for nq, masks in ((2, [4, 1, 2]), (2, [0, 3]), (3, [8, 7]), (3, [0, 1, 6]), (2, [4, 2, 1])):
            for kind in (0, 1, 2, 3):
                out.append((self.routing_case(rng, nq, masks, kind), "routing-empty-worker"))
        return out

    def nontrivial(self, args, obs):
        return '(VL [(VL [(VN' in obs


class DmnReplies(Dmn):
    """the daemon as the server of reply-bearing requests whose handler fails (C03): ring histories (GET_VRING_BASE with
    ring indexes the handler refuses) and ring-resize histories (GET_QUEUE_NUM before every step)"""

    def generate(self, rng, tier):
        n = 150 if tier == "quick" else 1500
        out = [(self.ring_history(rng, 4 + rng.below(14)), "ring-history") for _ in range(n)]
        out += [(self.resize_history(rng), "ring-resize") for _ in range(n // 3)]
        return out
