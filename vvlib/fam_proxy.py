# families on the backend-initiated channel: fsrv (raw peer -> FrontendReqHandler),
# proxy (Backend proxy vs scripted peer), psess (Backend proxy <-> FrontendReqHandler).
from . import wire as W
from .core import VN, VS, VH, VL, split_top
from .engine import Family

BR = dict(IOTLB_MSG=1, CONFIG_CHANGE_MSG=2, VRING_HOST_NOTIFIER_MSG=3, VRING_CALL=4, VRING_ERR=5, SHARED_OBJECT_ADD=6,
          SHARED_OBJECT_REMOVE=7, SHARED_OBJECT_LOOKUP=8, SHMEM_MAP=9, SHMEM_UNMAP=10)
U64L = [0, 1, 0x1000, 2**32, 2**63, 2**64 - 4096, 2**64 - 1]
ERRNOS = [1, 2, 5, 11, 12, 13, 14, 16, 22, 28, 38, 95, 110, 2**31 - 1]


def uuid(rng):
    return rng.choice([bytes(16), bytes([255] * 16), bytes(range(1, 17)), W.u64(rng.next()) + W.u64(rng.next()),
                       bytes([0] * 15 + [1]), bytes([255] * 15 + [254])])


def mmap(rng, good):
    if good:
        return [rng.below(256), rng.below(1 << 20) << 12, rng.below(1 << 20) << 12, rng.choice([0x1000, 1, 2**32]), rng.below(2)]
    return [rng.below(256), rng.choice(U64L), rng.choice(U64L), rng.choice([0, 1, 2**64 - 1]), rng.choice([0, 1, 2, 3, 2**63])]


def mmap_bytes(a, pad=0):
    return bytes([a[0] & 0xff]) + W.le(pad, 7) + W.u64(a[1]) + W.u64(a[2]) + W.u64(a[3]) + W.u64(a[4])


def hres(rng):
    k = rng.below(6)
    if k <= 2:
        return (0, rng.choice([0, 0, 0, 1, 2, 2**63, 2**64 - 1]))
    if k <= 4:
        return (1, rng.choice(ERRNOS))
    return (2, 0)


class Fsrv(Family):
    name = "fsrv"
    shards = 16

    def one(self, rng, malformed):
        ra = rng.below(2) if not malformed else rng.below(2)
        fdn = [0]

        def fds(k):
            out = list(range(fdn[0] + 1, fdn[0] + 1 + k))
            fdn[0] += k
            return out
        msgs, hs = [], []
        for _ in range(1 + rng.below(7)):
            name = rng.choice(list(BR))
            code = BR[name]
            if name in ("SHARED_OBJECT_ADD", "SHARED_OBJECT_REMOVE", "SHARED_OBJECT_LOOKUP"):
                body = uuid(rng)
            elif name in ("SHMEM_MAP", "SHMEM_UNMAP"):
                body = mmap_bytes(mmap(rng, rng.chance(3, 4)), pad=0 if rng.chance(3, 4) else rng.next() & (2**56 - 1))
            elif name == "CONFIG_CHANGE_MSG":
                body = b""
            else:
                body = W.u64(rng.next()) if rng.chance(1, 2) else b""
            f = fds(1) if name in ("SHARED_OBJECT_LOOKUP", "SHMEM_MAP") else []
            b = W.msg(code, body, need_reply=rng.chance(1, 2))
            if rng.chance(1, 8):
                # a header-valid message that is not a request: the REPLY bit is set
                b = W.msg(code, body, flags=1 | 4 | (8 if rng.chance(1, 2) else 0))
            if malformed and rng.chance(1, 2):
                k = rng.below(9)
                bb = bytearray(b)
                if k == 0:
                    bb[8:12] = W.le((len(body) + rng.choice([1, -1, 8, 4096])) & 0xffffffff, 4)
                elif k == 1:
                    bb[4 + rng.below(4)] ^= 1 << rng.below(8)
                elif k == 2 and len(bb) > 12:
                    bb = bb[:12 + rng.below(len(bb) - 12)]
                elif k == 3:
                    f = f + fds(rng.choice([1, 2, 31, 33]))
                elif k == 4:
                    f = []
                elif k == 5:
                    bb[0:4] = W.le(rng.choice([0, 11, 12, 255, 2**32 - 1, rng.below(12)]), 4)
                elif k == 6 and len(bb) > 12:
                    bb[12 + rng.below(len(bb) - 12)] = rng.below(256)
                elif k == 7:
                    bb = bb[:1 + rng.below(11)]
                else:
                    bb += bytes(rng.below(256) for _ in range(1 + rng.below(8)))
                b = bytes(bb)
            if b:
                msgs.append((b, f))
            hs.append(hres(rng))
        hs += [(0, 0)] * 3
        return [VN(ra), VL([VL([VN(k), VN(v)]) for k, v in hs]),
                VL([VL([VH(b), VL([VN(x) for x in f])]) for b, f in msgs])]

    def generate(self, rng, tier):
        n1, n2 = (800, 800) if tier == "quick" else (8000, 8000)
        return [(self.one(rng, False), "structured") for _ in range(n1)] + [(self.one(rng, True), "malformed") for _ in range(n2)]

    def nontrivial(self, args, obs):
        p = split_top(obs)
        return len(p) >= 2 and p[1] != "(VL [])"


OPS = ["shared_object_add", "shared_object_remove", "shared_object_lookup", "shmem_map", "shmem_unmap"]
PCODE = dict(shared_object_add=6, shared_object_remove=7, shared_object_lookup=8, shmem_map=9, shmem_unmap=10)


def op_args(rng, op, fdn, good):
    if op.startswith("shared"):
        u = uuid(rng) if not good else rng.choice([bytes(range(1, 17)), W.u64(rng.next() | 1) + W.u64(rng.next())])
        nums = []
    else:
        u = b""
        nums = mmap(rng, good)
    f = []
    if op in ("shared_object_lookup", "shmem_map"):
        fdn[0] += 1
        f = [fdn[0]]
    return nums, u, f


class Proxy(Family):
    name = "proxy"
    shards = 16

    def generate(self, rng, tier):
        out = []
        for _ in range(600 if tier == "quick" else 6000):
            ra, sh, sm = rng.below(2), 1 if rng.chance(4, 5) else 0, 1 if rng.chance(4, 5) else 0
            fdn = [100]
            steps = []
            for _ in range(1 + rng.below(5)):
                op = rng.choice(OPS)
                nums, u, f = op_args(rng, op, fdn, rng.chance(3, 4))
                code = PCODE[op]
                script = []
                if ra:
                    v = 0 if rng.chance(2, 3) else rng.choice([1, 2**64 - 22, 2**63])
                    b = bytearray(W.hdr(code, 5, 8) + W.u64(v))
                    sf = []
                    k = rng.below(12)
                    if k == 0:
                        b[0:4] = W.le(rng.choice([code + 1, 0, 11, 2**32 - 1]), 4)
                    elif k == 1:
                        b[4 + rng.below(4)] ^= 1 << rng.below(8)
                    elif k == 2:
                        b[4] = (b[4] & ~3) | rng.choice([0, 2, 3])
                    elif k == 3:
                        fdn[0] += 1
                        sf = [fdn[0]]
                    elif k == 4:
                        b = b[:rng.below(len(b))]
                    elif k == 5:
                        b[4] &= ~4
                    elif k == 6:
                        b = bytearray(rng.below(256) for _ in range(20))
                    elif k == 7:
                        # the size field alone (the eight value bytes still follow)
                        b[8:12] = W.le(rng.choice([0, 4, 7, 9, 16]), 4)
                    elif k == 8:
                        # a short acknowledgement, consistently framed: size 0 or 4 and exactly that many value bytes
                        sz = rng.choice([0, 4])
                        vv = rng.choice([0, 1, 2**32, 2**64 - 22])
                        b = bytearray(W.hdr(code, 5, sz) + W.u64(vv)[:sz])
                    elif k == 9:
                        # size 4, a failure code in the upper half of the eight bytes that follow
                        b = bytearray(W.hdr(code, 5, 4) + W.u64(rng.choice([2**32, 2**63])))
                    script = [(bytes(b), sf)] if len(b) else []
                elif rng.chance(1, 8):
                    script = [(W.hdr(code, 5, 8) + W.u64(0), [])]
                steps.append(VL([VS(op), VL([VN(x) for x in nums]), VH(u), VL([VN(x) for x in f]),
                                 VL([VL([VH(b), VL([VN(x) for x in ff])]) for b, ff in script])]))
            out.append(([VL([VN(ra), VN(sh), VN(sm)]), VL(steps)], "proxy"))
        return out


class ProxyTrunc(Proxy):
    """the proxy's acknowledgement reader under a stream that ends inside the acknowledgement (C08)"""

    def generate(self, rng, tier):
        out = []
        for op in OPS:
            for cut in range(20):
                fdn = [100]
                nums, u, f = op_args(rng, op, fdn, True)
                b = W.hdr(PCODE[op], 5, 8) + W.u64(0)
                script = [(bytes(b[:cut]), [])] if cut else []
                steps = [VL([VS(op), VL([VN(x) for x in nums]), VH(u), VL([VN(x) for x in f]),
                             VL([VL([VH(bb), VL([VN(x) for x in ff])]) for bb, ff in script])])]
                out.append(([VL([VN(1), VN(1), VN(1)]), VL(steps)], "truncated-ack"))
        return out


class Psess(Family):
    name = "psess"
    shards = 16

    def generate(self, rng, tier):
        out = []
        for _ in range(500 if tier == "quick" else 5000):
            ra, sh, sm = rng.below(2), 1 if rng.chance(5, 6) else 0, 1 if rng.chance(5, 6) else 0
            fdn = [100]
            steps = []
            for _ in range(1 + rng.below(6)):
                op = rng.choice(OPS)
                nums, u, f = op_args(rng, op, fdn, rng.chance(5, 6))
                k, v = hres(rng)
                steps.append(VL([VS(op), VL([VN(x) for x in nums]), VH(u), VL([VN(x) for x in f]), VL([VN(k), VN(v)])]))
            out.append(([VL([VN(ra), VN(sh), VN(sm)]), VL(steps)], "psess"))
        return out
