# The per-property check: translate, prove, build, run correspondence, decide.
import json, os, re, sys, time, traceback
from . import core
from .core import CheckFailure, log


class Family:
    """one correspondence family: cases are lists of val strings (the args after the family tag)"""
    name = "?"
    spec = True  # whether a `<name>-spec` entry exists in Model/Run.v
    shards = 8

    def generate(self, rng, tier):
        """-> list of (args:list[str], label:str)"""
        raise NotImplementedError

    def corpus(self):
        """stored minimized failures; run first"""
        d = os.path.join(core.VERIF, "corpus", self.name)
        out = []
        if os.path.isdir(d):
            for f in sorted(os.listdir(d)):
                for line in open(os.path.join(d, f)):
                    line = line.strip()
                    if line:
                        out.append(line)
        return out

    def nontrivial(self, args, obs):
        return True

    def signature(self, args, obs):
        """what a known-finding entry is matched against"""
        return self.name

    def canon(self, obs):
        """canonical form of an observation for the model/implementation comparison (identity unless the family's
        log contains entries whose relative order the schedule does not determine); the Spec always sees the raw one"""
        return obs

    def case_line(self, args):
        return core.VL([core.VS(self.name)] + args)

    def spec_line(self, args, obs):
        return core.VL([core.VS(self.name + "-spec")] + args + [obs])


def classify_error_file(output):
    m = re.search(r'File "\./([^"]+)", line (\d+)', output)
    return (m.group(1), int(m.group(2))) if m else (None, None)


def run_property(cfg, tier, seed):
    pid = cfg["id"]
    t0 = time.time()
    problems = []      # (stage, what, detail): anything that means "no longer shown to hold"
    machinery = []     # errors of the machinery itself
    fam_results = []
    assumptions_info = None
    obligations = discharged = 0
    gen_ok = True
    model_ok = True
    with core.Lock():
        # 1. translator
        core.build_translator()
        try:
            msg = core.run_translator()
            log(msg)
        except CheckFailure as e:
            problems.append((e.stage, e.what, e.detail))
            gen_ok = False
        # 2. proofs
        prop_file = cfg["props"]
        thms = core.theorem_stats(prop_file)
        obligations = len(thms) + core.lemma_count(cfg.get("proof_files", []))
        if gen_ok:
            ok, out, dt = core.coq_build([prop_file] + cfg.get("extra_targets", []))
            log(f"coq build of {prop_file}: {'ok' if ok else 'FAILED'} in {dt:.1f}s")
            if not ok:
                f, ln = classify_error_file(out)
                problems.append(("proof", f"Coq target {prop_file} no longer builds (first error in {f}:{ln})", out[-3000:]))
                if f and f.startswith("Gen/"):
                    gen_ok = False
            else:
                info, txt = core.assumptions_of(prop_file, out)
                if info is None:
                    problems.append(("proof", f"coqc {prop_file} failed when collecting assumptions", txt[-2000:]))
                else:
                    closed, axioms = info
                    assumptions_info = {"closed": closed, "axioms": axioms}
                    bad = [a for a in axioms if a not in core.ALLOWED_AXIOMS]
                    if bad:
                        problems.append(("assumptions", f"theorems depend on axioms outside the allow-list: {bad}", ""))
                    if closed + (1 if axioms else 0) < len(thms) and not axioms:
                        problems.append(("assumptions", f"{len(thms)} theorems but only {closed} assumption reports", ""))
                    if not bad:
                        discharged = obligations
        hits = core.scan_forbidden()
        if hits:
            problems.append(("hygiene", "forbidden constructs in the development", "\n".join(hits[:20])))
            discharged = 0
        # 3. executable model + harness
        exe_model = None
        stale_model = None
        if gen_ok:
            ok, out, dt = core.coq_build(["Model/Run.vo"])
            if not ok:
                f, ln = classify_error_file(out)
                stale = os.path.join(core.BUILD, "ocaml", "vv_eval")
                if f and f.startswith("Gen/") and not core.depends_on(prop_file, f) and os.path.exists(stale):
                    # rs2v rejected a part of the source that this property's theorems do not depend on (they were just
                    # re-checked): the evaluator built from the last translatable source keeps serving the
                    # correspondence - a change of behaviour still shows up as a difference or a falsified predicate
                    log(f"note: {f} is rejected by rs2v; {prop_file} does not depend on it - the model evaluator of the previous run is used")
                    stale_model = stale
                else:
                    problems.append(("model", f"the executable model no longer builds (first error in {f}:{ln})", out[-3000:]))
                    model_ok = False
            else:
                try:
                    exe_model = core.build_model_eval()
                except CheckFailure as e:
                    problems.append((e.stage, e.what, e.detail))
                    model_ok = False
        else:
            model_ok = False
        exe_impl = None
        try:
            exe_impl = core.build_harness()
        except CheckFailure as e:
            problems.append((e.stage, e.what, e.detail))
        if stale_model is not None:
            exe_model = stale_model
        # a model evaluator from a previous run can still serve the Spec side of the search
        if exe_model is None:
            stale = os.path.join(core.BUILD, "ocaml", "vv_eval")
            exe_spec = stale if os.path.exists(stale) else None
        else:
            exe_spec = exe_model
        # 4. correspondence
        rng = core.Rng(seed)
        for fam in cfg.get("families", []):
            fr = run_family(fam, rng, tier, exe_impl, exe_model if model_ok else None, exe_spec)
            fam_results.append(fr)
    wall = time.time() - t0
    return decide(cfg, tier, seed, problems, fam_results, assumptions_info, obligations, discharged, wall)


def run_family(fam, rng, tier, exe_impl, exe_model, exe_spec):
    cases = []
    for line in fam.corpus():
        cases.append((None, "corpus", line))
    for args, label in fam.generate(rng, tier):
        cases.append((args, label, fam.case_line(args)))
    lines = [c[2] for c in cases]
    res = {"family": fam.name, "n": len(lines), "labels": {}, "diffs": [], "spec_fail": [], "samples": [],
           "distinct_nontrivial": 0, "impl_run": False, "model_run": False, "recheck": None, "obs_classes": {}}
    for _, label, _ in cases:
        res["labels"][label] = res["labels"].get(label, 0) + 1
    if exe_impl is None:
        return res
    t = time.time()
    impl = core.run_lines(exe_impl, lines, shards=fam.shards)
    res["impl_run"] = True
    res["impl_s"] = round(time.time() - t, 2)
    model = None
    if exe_model is not None and getattr(fam, "model", True):
        t = time.time()
        model = core.run_lines(exe_model, lines, shards=16)
        res["model_run"] = True
        res["model_s"] = round(time.time() - t, 2)
    spec = None
    if fam.spec and exe_spec is not None:
        spec_lines = []
        for (args, label, line), o in zip(cases, impl):
            if args is None:
                # corpus lines: rebuild args from the line is not needed; spec on corpus uses the stored line
                spec_lines.append(line.replace(f'(VS "{fam.name}")', f'(VS "{fam.name}-spec")', 1)[:-2] + "; " + o + "])")
            else:
                spec_lines.append(fam.spec_line(args, o))
        spec = core.run_lines(exe_spec, spec_lines, shards=16)
    seen = set()
    for i, (args, label, line) in enumerate(cases):
        o = impl[i]
        cls = obs_class(o)
        res["obs_classes"][cls] = res["obs_classes"].get(cls, 0) + 1
        if model is not None and model[i] != o and fam.canon(model[i]) != fam.canon(o):
            res["diffs"].append({"case": line, "impl": o, "model": model[i], "label": label,
                                 "spec_ok": (spec[i] if spec else None)})
        if spec is not None and spec[i].startswith('(VS "false'):
            # "false" or "false:C04,C07": which property's predicate the observation falsifies
            tag = spec[i][len('(VS "false'):-2].lstrip(":")
            res["spec_fail"].append({"case": line, "impl": o, "model": (model[i] if model else None), "label": label,
                                     "props": [t for t in tag.split(",") if t]})
        elif spec is not None and spec[i] not in ('(VS "true")', '(VS "n/a")'):
            res["diffs"].append({"case": line, "impl": o, "model": (model[i] if model else None), "label": label,
                                 "spec_ok": spec[i], "note": "spec evaluator error"})
        key = (line, o)
        if key not in seen:
            seen.add(key)
            if args is None or fam.nontrivial(args, o):
                res["distinct_nontrivial"] += 1
    step = max(1, len(cases) // 4)
    for i in range(0, len(cases), step):
        res["samples"].append({"case": clip(cases[i][2]), "impl": clip(impl[i]), "model": clip(model[i]) if model else None})
    # in-Coq re-evaluation of a sample
    if model is not None:
        k = max(50, len(cases) // 50) if tier == "thorough" else 50
        k = min(k, len(cases))
        idx = sorted(set((i * 7919) % len(cases) for i in range(k)))
        # very long literals (kilobytes of hex) overflow coqc's parser stack: the sample keeps to cases of moderate size
        idx = [i for i in idx if len(lines[i]) + len(model[i]) < 6000] or idx[:1]
        ok, msg = core.coq_recheck([lines[i] for i in idx], [model[i] for i in idx], fam.name)
        res["recheck"] = {"n": len(idx), "ok": ok}
        if not ok:
            res["diffs"].append({"case": "(in-Coq vm_compute re-evaluation of the sample)", "impl": None, "model": None,
                                 "label": "recheck", "note": msg})
    return res


def clip(s, n=400):
    if s is None:
        return None
    return s if len(s) <= n else s[:n] + "..."


def obs_class(o):
    m = re.match(r'\(VS "([^"]*)"\)', o)
    if m:
        return m.group(1)
    m = re.match(r'\(VL \[\(VS "([^"]*)"\)(?:; \(VS "([^"]*)"\))?', o)
    if m:
        return m.group(1) + (":" + m.group(2) if m.group(2) else "")
    return "other"


def decide(cfg, tier, seed, problems, fam_results, assumptions_info, obligations, discharged, wall):
    pid = cfg["id"]
    known = [k for k in core.load_known() if k.get("property") == pid and k.get("status") == "known"]
    violations = []   # (replay payload, suffix)
    known_lines = []
    n = 0
    # concrete failing inputs first
    concrete = []
    other_props = {}
    for fr in fam_results:
        for sf in fr["spec_fail"]:
            if sf.get("props") and pid not in sf["props"] and not pid.endswith("-DEV"):
                # the observation falsifies another property's predicate: that property's own check reports it
                for t in sf["props"]:
                    other_props[t] = other_props.get(t, 0) + 1
                    if other_props[t] == 1:
                        # kept for diagnosis: the first such observation, replayable with specdebug
                        core.write_replay(f"seen-by-{pid}-{t}", seed, 0, {"kind": "other-property", "property": t, "family": fr["family"],
                                          "case": sf["case"], "implementation_observation": sf["impl"], "model_observation": sf["model"]})
                continue
            concrete.append((fr["family"], sf))
    if other_props:
        log(f"note: observations falsifying other properties' predicates (reported by their own checks): {other_props}")
    concrete.sort(key=lambda x: len(x[1]["case"]))
    reported_sigs = set()
    for famname, sf in concrete:
        sig = match_known(known, famname, sf)
        if sig is not None:
            if sig["id"] not in reported_sigs:
                reported_sigs.add(sig["id"])
                known_lines.append(f"KNOWN-FINDING: property={pid} {sig['what']}")
            continue
        if len(violations) >= 3:
            break
        violations.append(({"kind": "failing-input", "property": pid, "family": famname, "case": sf["case"],
                            "implementation_observation": sf["impl"], "model_observation": sf["model"],
                            "spec_verdict": "the implementation's observation falsifies the property predicate",
                            "broken": [p[:2] for p in problems],
                            "rerun": f"./check {pid} --replay <this file>"}, ""))
    if not violations:
        diffs = [(fr["family"], d) for fr in fam_results for d in fr["diffs"]]
        if problems or diffs:
            payload = {"kind": "no-failing-input-found", "property": pid,
                       "no_longer_checks": [{"stage": s, "what": w, "detail": d[-1500:]} for s, w, d in problems],
                       "correspondence_differences": [{"family": f, **d} for f, d in diffs[:5]],
                       "searched": [{"family": fr["family"], "cases": fr["n"], "impl_run": fr["impl_run"]} for fr in fam_results]}
            violations.append((payload, " no-failing-input-found"))
            # a short diagnosis on stdout, so that a log of this run is enough to see what differed
            for st, w, d in problems[:3]:
                log(f"no longer checks [{st}]: {w}")
            for f, d in diffs[:2]:
                log(f"difference in family {f} ({d.get('label')}): case={clip(d.get('case'), 300)}")
                log(f"   impl ={clip(d.get('impl'), 600)}")
                log(f"   model={clip(d.get('model'), 600)}")
                if d.get("note"):
                    log(f"   note ={clip(str(d.get('note')), 300)}")
    # evidence
    evals = sum(fr["n"] for fr in fam_results)
    dn = sum(fr["distinct_nontrivial"] for fr in fam_results)
    samples = [s for fr in fam_results for s in fr["samples"]][:8]
    thms = core.theorem_stats(cfg["props"])
    cov = {
        "obligations": obligations,
        ("discharged" if (discharged and not problems) else "discharged_count"): discharged if not problems else 0,
        "checker_cmd": f"cd coq && make -j16 {cfg['props'][:-2]}.vo  (coqc 8.16.1, full .vo build; Print Assumptions per theorem)",
        "trusted_base": cfg.get("trusted_base", []) + [
            "Coq 8.16.1 kernel, vm_compute (no native_compute)",
            "translator rs2v (syn 2) producing coq/Gen/*.v from /repo on every run",
            "extraction via ExtrOcamlBasic only + hand-written ocaml/driver.ml, cross-checked on a sample by vm_compute inside Coq each run",
            "Rust correspondence harness vv-harness and the cfg(vhost_verif) accessor hooks in /repo",
        ],
        "theorems": thms,
        "print_assumptions": assumptions_info,
        "evaluations": evals,
        "distinct_nontrivial": dn,
        "rule": cfg.get("rule", ""),
        "samples": samples or [{"note": "no correspondence family for this property"}],
        "families": [{k: fr[k] for k in ("family", "n", "labels", "obs_classes", "impl_run", "model_run", "recheck")} |
                     {"differences": len(fr["diffs"]), "spec_failures": len(fr["spec_fail"]),
                      "impl_s": fr.get("impl_s"), "model_s": fr.get("model_s")} for fr in fam_results],
        "exhaustive": cfg.get("exhaustive", False),
        "known_findings_matched": sorted(reported_sigs),
        "other_property_failures_seen": other_props,
    }
    core.write_evidence(pid, tier, seed, cov, cfg.get("assumptions", []), wall, violations=len(violations))
    for l in known_lines:
        print(l)
    if violations:
        for payload, suffix in violations:
            n += 1
            path = core.write_replay(pid, seed, n, payload)
            print(f"VIOLATION property={pid} replay={path}{suffix}")
        return 1
    log(f"{pid}: held ({discharged}/{obligations} obligations, {evals} correspondence cases, {wall:.1f}s)")
    return 0


def match_known(known, famname, sf):
    for k in known:
        sig = k.get("signature", {})
        if sig.get("family") not in (None, famname):
            continue
        pat = sig.get("case_regex")
        if pat and not re.search(pat, sf["case"]):
            continue
        ipat = sig.get("impl_regex")
        if ipat and not re.search(ipat, sf["impl"] or ""):
            continue
        return k
    return None


def replay(cfg, path):
    """re-run the case stored in a replay file against the current tree"""
    payload = json.load(open(path))
    pid = cfg["id"]
    if payload.get("kind") != "failing-input":
        print(json.dumps(payload, indent=1)[:4000])
        print("(no concrete input in this replay; it names what no longer checks)")
        return 1
    with core.Lock():
        exe_impl = core.build_harness()
        exe_model = os.path.join(core.BUILD, "ocaml", "vv_eval")
        line = payload["case"]
        impl = core.run_lines(exe_impl, [line])[0]
        fam = payload["family"]
        spec_line = line.replace(f'(VS "{fam}")', f'(VS "{fam}-spec")', 1)[:-2] + "; " + impl + "])"
        spec = core.run_lines(exe_model, [spec_line])[0]
    print(f"case: {line}\nimplementation: {impl}\nproperty predicate on that observation: {spec}")
    if spec.startswith('(VS "false'):
        print(f"VIOLATION property={pid} replay={path}")
        return 1
    return 0
