# family "be": request histories fed to the real BackendReqHandler by a raw peer.
# Streams: structured/mostly-valid histories, a malformed stream (grammar-aware
# mutations), and exhaustive small histories over a reduced alphabet.
import itertools
from . import wire as W
from .core import VN, VS, VH, VL, split_top
from .engine import Family

U64L = [0, 1, 2, 0xfff, 0x1000, 0x1001, 2**31, 2**32 - 1, 2**32, 2**63, 2**64 - 4096, 2**64 - 2, 2**64 - 1]
ALIGNED = [0, 16, 0x1000, 0x7fff0000, 2**63, 2**64 - 16]
U32L = [0, 1, 2, 255, 256, 0x100, 0xfff, 0x1000, 0x1001, 65535, 65536, 2**31, 2**32 - 1]


class Gen:
    def __init__(self, rng):
        self.rng = rng
        self.next_fd = 1

    def fds(self, n):
        out = list(range(self.next_fd, self.next_fd + n))
        self.next_fd += n
        return out

    def u64(self):
        r = self.rng
        m = r.below(4)
        if m == 0:
            return r.choice(U64L)
        if m == 1:
            return r.next()
        if m == 2:
            return r.below(1 << 20) << 12
        return r.below(256)

    def u32(self):
        r = self.rng
        return r.choice(U32L) if r.chance(1, 2) else (r.next() & 0xffffffff if r.chance(1, 2) else r.below(64))

    def idx(self):
        r = self.rng
        return r.choice([0, 1, 2, 7, 255, 256, 257, 65535, 2**32 - 1]) if r.chance(1, 4) else r.below(4)

    def good_region(self):
        r = self.rng
        size = r.choice([0x1000, 0x2000, 0x100000, 1, 2**32])
        return (r.below(1 << 30) << 12, size, r.below(1 << 34) << 12, r.below(16) << 12)

    def any_region(self):
        r = self.rng
        if r.chance(2, 3):
            return self.good_region()
        return (self.u64(), r.choice([0, 1, 0x1000, 2**64 - 1, 2**63]), self.u64(), self.u64())

    # each builder returns (code, body, fds)
    def request(self, name):
        r = self.rng
        C = W.FE
        if name in ("GET_FEATURES", "SET_OWNER", "RESET_OWNER", "GET_PROTOCOL_FEATURES", "GET_QUEUE_NUM", "RESET_DEVICE",
                    "GET_MAX_MEM_SLOTS", "CHECK_DEVICE_STATE", "GET_SHMEM_CONFIG"):
            return C[name], b"", []
        if name in ("SET_FEATURES", "SET_PROTOCOL_FEATURES"):
            v = self.u64() if r.chance(1, 3) else (r.next() & (W.PF_ALL | W.VF_PROTOCOL_FEATURES))
            return C[name], W.u64(v), []
        if name == "SET_MEM_TABLE":
            n = r.choice([1, 1, 2, 3, 8, 32]) if r.chance(4, 5) else r.choice([0, 33])
            regs = [self.any_region() if r.chance(1, 6) else self.good_region() for _ in range(n)]
            return C[name], W.mem_table(regs, pad=0 if r.chance(9, 10) else 1), self.fds(n)
        if name in ("SET_VRING_NUM", "SET_VRING_BASE"):
            return C[name], W.vring_state(self.idx(), self.u32()), []
        if name == "GET_VRING_BASE":
            return C[name], W.vring_state(self.idx(), self.u32() if r.chance(1, 4) else 0), []
        if name == "SET_VRING_ENABLE":
            return C[name], W.vring_state(self.idx(), r.choice([0, 1, 1, 0, 2, 2**32 - 1])), []
        if name == "SET_VRING_ADDR":
            fl = r.choice([0, 0, 1, 2, 3, 2**31])
            a = lambda al: (r.choice(ALIGNED) if r.chance(5, 6) else self.u64())
            return C[name], W.vring_addr(self.idx(), fl, a(16), a(4), a(2), self.u64()), []
        if name in ("SET_VRING_KICK", "SET_VRING_CALL", "SET_VRING_ERR"):
            i = r.below(4) if r.chance(3, 4) else r.choice([255, 256 | 3, 0xff, 0x1ff, 2**63])
            nofd = r.chance(1, 4)
            v = i | (0x100 if nofd else 0)
            if r.chance(1, 8):
                v |= r.next() & ~0x1ff
            return C[name], W.u64(v), ([] if nofd else self.fds(1))
        if name == "GET_CONFIG" or name == "SET_CONFIG":
            off = r.choice([0, 1, 0x100, 0xff0, 0xfff, 0x1000])
            size = r.choice([1, 4, 8, 16, 0x100, 0xf00]) if r.chance(4, 5) else r.choice([0, 0x1000, 0x1001, 2**32 - 1])
            fl = r.choice([0, 1, 2, 3, 4])
            plen = size if size <= 4084 else 8
            payload = bytes((r.below(256)) for _ in range(min(plen, 64))) + bytes(max(0, plen - 64))
            return W.FE[name], W.config(off, size, fl, payload), []
        if name in ("SET_BACKEND_REQ_FD", "GPU_SET_SOCKET", "SET_LOG_FD"):
            return C[name], b"", self.fds(1)
        if name == "GET_SHARED_OBJECT":
            u = r.choice([bytes(16), bytes([255] * 16), bytes(range(16)), W.u64(r.next()) + W.u64(r.next())])
            return C[name], u, []
        if name in ("GET_INFLIGHT_FD", "SET_INFLIGHT_FD"):
            b = W.inflight(self.u64(), self.u64(), r.choice([0, 1, 2, 65535]), r.choice([0, 1, 256, 65535]))
            return C[name], b, (self.fds(1) if name == "SET_INFLIGHT_FD" else [])
        if name in ("ADD_MEM_REG", "REM_MEM_REG"):
            reg = self.any_region() if r.chance(1, 3) else self.good_region()
            return C[name], W.single_region(*reg, pad=0 if r.chance(4, 5) else self.u64()), (self.fds(1) if name == "ADD_MEM_REG" else [])
        if name == "SET_DEVICE_STATE_FD":
            return C[name], W.transfer(r.choice([0, 1, 1, 0, 2]), r.choice([0, 0, 0, 1])), self.fds(1)
        if name == "SET_LOG_BASE":
            return C[name], W.log(self.u64() | 1 if r.chance(3, 4) else 0, r.choice([0, 0x1000, 2**64 - 1])), self.fds(1)
        # unhandled-by-the-crate but defined codes
        return C[name], (W.u64(self.u64()) if r.chance(1, 2) else b""), []


HANDLED = ["GET_FEATURES", "SET_FEATURES", "SET_OWNER", "RESET_OWNER", "SET_MEM_TABLE", "SET_LOG_BASE", "SET_VRING_NUM",
           "SET_VRING_ADDR", "SET_VRING_BASE", "GET_VRING_BASE", "SET_VRING_KICK", "SET_VRING_CALL", "SET_VRING_ERR",
           "GET_PROTOCOL_FEATURES", "SET_PROTOCOL_FEATURES", "GET_QUEUE_NUM", "SET_VRING_ENABLE", "SET_BACKEND_REQ_FD",
           "GET_CONFIG", "SET_CONFIG", "GET_INFLIGHT_FD", "SET_INFLIGHT_FD", "GPU_SET_SOCKET", "RESET_DEVICE",
           "GET_MAX_MEM_SLOTS", "ADD_MEM_REG", "REM_MEM_REG", "GET_SHARED_OBJECT", "SET_DEVICE_STATE_FD",
           "CHECK_DEVICE_STATE", "GET_SHMEM_CONFIG"]
UNHANDLED = ["SET_LOG_FD", "SEND_RARP", "NET_SET_MTU", "IOTLB_MSG", "SET_VRING_ENDIAN", "POSTCOPY_ADVISE", "POSTCOPY_LISTEN",
             "POSTCOPY_END", "VRING_KICK", "SET_STATUS", "GET_STATUS", "CREATE_CRYPTO_SESSION", "CLOSE_CRYPTO_SESSION"]


def encode_case(feat, pfeat, outcomes, msgs):
    return [VL([VN(feat), VN(pfeat)]), VL([VN(o) for o in outcomes]),
            VL([VL([VH(b), VL([VN(f) for f in fds])]) for b, fds in msgs])]


def negotiation(g, rng, feat, full):
    """a prefix that (usually) opens the gates"""
    msgs = []
    steps = ["GET_FEATURES", "SET_FEATURES", "GET_PROTOCOL_FEATURES", "SET_PROTOCOL_FEATURES"]
    if not full:
        steps = [s for s in steps if rng.chance(3, 4)]
        if rng.chance(1, 5):
            rng.shuffle(steps)
    for s in steps:
        if s == "SET_FEATURES":
            v = feat if rng.chance(3, 4) else (feat & ~W.VF_PROTOCOL_FEATURES)
            msgs.append((W.msg(W.FE[s], W.u64(v), need_reply=rng.chance(1, 3)), []))
        elif s == "SET_PROTOCOL_FEATURES":
            v = W.PF_ALL if rng.chance(1, 2) else (rng.next() & W.PF_ALL)
            if rng.chance(1, 2):
                v |= W.PF["REPLY_ACK"]
            msgs.append((W.msg(W.FE[s], W.u64(v), need_reply=rng.chance(1, 3)), []))
        else:
            msgs.append((W.msg(W.FE[s]), []))
    return msgs


def mutate(g, rng, b, fds):
    """grammar-aware mutation of one encoded message"""
    k = rng.below(12)
    b = bytearray(b)
    if k == 0 and len(b) >= 12:      # size field +-
        sz = int.from_bytes(b[8:12], "little")
        b[8:12] = ((sz + rng.choice([1, -1, 8, 4096, 2**31])) & 0xffffffff).to_bytes(4, "little")
    elif k == 1 and len(b) >= 8:     # a flag bit
        b[4 + rng.below(4)] ^= 1 << rng.below(8)
    elif k == 2 and len(b) > 12:     # truncated body
        b = b[:12 + rng.below(len(b) - 12)]
    elif k == 3:                     # extended body, header size kept
        b += bytes(rng.below(256) for _ in range(1 + rng.below(16)))
    elif k == 4:                     # extended body, header size adjusted
        ext = bytes(rng.below(256) for _ in range(1 + rng.below(16)))
        if len(b) >= 12:
            sz = int.from_bytes(b[8:12], "little")
            b[8:12] = ((sz + len(ext)) & 0xffffffff).to_bytes(4, "little")
        b += ext
    elif k == 5:                     # extra descriptors
        fds = fds + g.fds(rng.choice([1, 1, 2, 3, 31, 32, 33, 40]))
    elif k == 6 and fds:             # missing descriptors
        fds = fds[:-1]
    elif k == 7 and len(b) >= 4:     # another code
        b[0:4] = rng.choice([0, 45, 46, 255, 2**31, 2**32 - 1, rng.below(50)]).to_bytes(4, "little")
    elif k == 8 and len(b) > 12:     # random byte in the body
        i = 12 + rng.below(len(b) - 12)
        b[i] = rng.below(256)
    elif k == 9 and len(b) >= 12:    # cut inside the header
        b = b[:1 + rng.below(11)]
    elif k == 10 and len(b) >= 8:    # version
        b[4] = (b[4] & ~3) | rng.choice([0, 2, 3])
    else:                            # body bytes all 0xff
        for i in range(12, len(b)):
            b[i] = 0xff
    return bytes(b), fds


class Be(Family):
    name = "be"
    shards = 16

    def one(self, rng, malformed, maxlen):
        return encode_case(*self.one_raw(rng, malformed, maxlen))

    def one_raw(self, rng, malformed, maxlen):
        g = Gen(rng)
        feat = rng.choice([W.VF_PROTOCOL_FEATURES, W.VF_PROTOCOL_FEATURES | W.VF_LOG_ALL | 0x3, 0, rng.next()])
        pfeat = rng.choice([W.PF_ALL, rng.next() & W.PF_ALL, 0, rng.next()])
        msgs = negotiation(g, rng, feat, full=rng.chance(1, 2))
        n = 1 + rng.below(maxlen)
        for _ in range(n):
            name = rng.choice(HANDLED) if rng.chance(9, 10) else rng.choice(UNHANDLED)
            code, body, fds = g.request(name)
            b = W.msg(code, body, need_reply=rng.chance(1, 2))
            if rng.chance(1, 12):
                # a header-valid message that is not a request: the REPLY bit is set
                b = W.msg(code, body, flags=1 | 4 | (8 if rng.chance(1, 2) else 0))
            if malformed and rng.chance(1, 2):
                b, fds = mutate(g, rng, b, fds)
            if malformed and rng.chance(1, 10) and len(b) > 13:
                # body in a separate segment, possibly with descriptors attached to it
                cut = 12
                msgs.append((b[:cut], fds))
                msgs.append((b[cut:], g.fds(1) if rng.chance(1, 3) else []))
            else:
                msgs.append((b, fds))
        if malformed and rng.chance(1, 6):
            msgs.append((bytes(rng.below(256) for _ in range(1 + rng.below(40))), g.fds(rng.below(3))))
        outcomes = [(0 if rng.chance(3, 4) else rng.choice([1, 1, 2, 3, 4, 5])) for _ in range(len(msgs) + 2)]
        return feat, pfeat, outcomes, [(b, f) for b, f in msgs if len(b) > 0]

    def generate(self, rng, tier):
        out = []
        nvalid, nmal = (1500, 1200) if tier == "quick" else (12000, 10000)
        for _ in range(nvalid):
            out.append((self.one(rng, False, 10), "structured"))
        for _ in range(nmal):
            out.append((self.one(rng, True, 8), "malformed"))
        # exhaustive small histories: a reduced alphabet x NEED_REPLY x outcome, after each of three negotiation states
        g = Gen(rng)
        alpha = []
        for name in ["SET_OWNER", "GET_QUEUE_NUM", "SET_VRING_NUM", "GET_VRING_BASE", "SET_VRING_ENABLE", "RESET_DEVICE",
                     "GET_CONFIG", "SET_PROTOCOL_FEATURES", "SET_FEATURES", "GET_FEATURES", "CHECK_DEVICE_STATE", "GET_MAX_MEM_SLOTS"]:
            code, body, fds = Gen(rng).request(name)
            if name == "GET_CONFIG":
                body = W.config(0, 8, 0, bytes(8))
            if name == "SET_VRING_ENABLE":
                body = W.vring_state(0, 1)
            if name == "SET_PROTOCOL_FEATURES":
                body = W.u64(W.PF_ALL)
            if name == "SET_FEATURES":
                body = W.u64(W.VF_PROTOCOL_FEATURES)
            alpha.append((code, body))
        prefixes = [[], [(W.msg(1), [])], [(W.msg(1), []), (W.msg(2, W.u64(W.VF_PROTOCOL_FEATURES)), []), (W.msg(15), []),
                                           (W.msg(16, W.u64(W.PF_ALL)), [])]]
        depth = 2
        letters = [(c, b, nr, o) for (c, b) in alpha for nr in (False, True) for o in (0, 1)]
        if tier == "quick":
            # depth 2 over the alphabet with NEED_REPLY x outcome only on the last letter
            for pi, pre in enumerate(prefixes):
                for (c1, b1) in alpha:
                    for (c2, b2, nr, o) in letters:
                        msgs = pre + [(W.msg(c1, b1, need_reply=True), []), (W.msg(c2, b2, need_reply=nr), [])]
                        outs = [0] * len(pre) + [0, o]
                        out.append((encode_case(W.VF_PROTOCOL_FEATURES, W.PF_ALL, outs, msgs), "exhaustive2"))
        else:
            for pi, pre in enumerate(prefixes):
                for l1 in letters:
                    for l2 in letters:
                        msgs = pre + [(W.msg(l1[0], l1[1], need_reply=l1[2]), []), (W.msg(l2[0], l2[1], need_reply=l2[2]), [])]
                        outs = [0] * len(pre) + [l1[3], l2[3]]
                        out.append((encode_case(W.VF_PROTOCOL_FEATURES, W.PF_ALL, outs, msgs), "exhaustive2"))
        # clean histories around the configuration messages: every header is consistent with the bytes that follow,
        # but the 12-byte descriptor declares fewer / more bytes than come after it (C05: served only when equal)
        pre = prefixes[2]
        for code in (24, 25):
            for off, declared in ((0, 4), (0x10, 16), (0xffc, 4), (0, 1), (0xff0, 16)):
                for extra in (0, 1, 12, -1, 64, 4096 - 12 - declared):
                    n = declared + extra
                    if n < 0 or 12 + n > 4096:
                        continue
                    for o in (0, 1):
                        body = W.config(off, declared, rng.choice([0, 1]), bytes((i * 7 + 1) % 256 for i in range(n)))
                        msgs = pre + [(W.msg(code, body, need_reply=rng.chance(1, 2)), []), (W.msg(1), [])]
                        out.append((encode_case(W.VF_PROTOCOL_FEATURES, W.PF_ALL, [0] * len(pre) + [o, 0], msgs), "config-lengths"))
        # every acknowledged request after a full negotiation, NEED_REPLY set, with each kind of handler failure
        # (EINVAL, an OS code of 0, no OS code at all): the acknowledgement must be non-zero for all of them
        for (c, b) in alpha:
            for o in (1, 3, 4):
                msgs = pre + [(W.msg(c, b, need_reply=True), []), (W.msg(1), [])]
                out.append((encode_case(W.VF_PROTOCOL_FEATURES, W.PF_ALL, [0] * len(pre) + [o, 0], msgs), "failure-kinds"))
        return out


    def nontrivial(self, args, obs):
        # at least one handler invocation happened
        parts = split_top(obs)
        return len(parts) >= 2 and parts[1] != "(VL [])"


class BGone(Family):
    """requests served while the peer no longer reads: every reply fails to be sent (family "bgone", judged by the
    specification only - the request-server model has no failing sends): descriptors must not stay open (C09)"""
    name = "bgone"
    shards = 16
    spec = True
    model = False

    def generate(self, rng, tier):
        out = []
        fdn = [0]
        def fd():
            fdn[0] += 1
            return fdn[0]
        reps = 1 if tier == "quick" else 8
        for _ in range(reps):
            for outcome in (0, 1, 2, 3, 4):
                for direction, phase in ((0, 0), (1, 0), (0, 1)):
                    # SET_DEVICE_STATE_FD: the handler keeps the descriptor, returns another one, or fails
                    m = (W.hdr(42, 1, 8) + W.le(direction, 4) + W.le(phase, 4), [fd()])
                    out.append((encode_case(W.VF_PROTOCOL_FEATURES, W.PF_ALL, [outcome], [m]), "state-fd-reply-fails"))
                # reply-bearing requests that return descriptors
                for code in (31, 41):
                    body = bytes(24) if code == 31 else bytes(range(16))
                    m = (W.hdr(code, 1, len(body)) + body, [])
                    out.append((encode_case(W.VF_PROTOCOL_FEATURES, W.PF_ALL, [outcome], [m]), "fd-reply-fails"))
            # descriptor-carrying requests whose acknowledgement fails
            pre = [(W.hdr(1, 1, 0), []), (W.hdr(2, 1, 8) + W.u64(W.VF_PROTOCOL_FEATURES), []), (W.hdr(15, 1, 0), [])]
            for code in (12, 13, 14, 7, 21, 33):
                body = W.u64(0) if code in (12, 13, 14) else b""
                m = (W.hdr(code, 9, len(body)) + body, [fd()])
                out.append((encode_case(W.VF_PROTOCOL_FEATURES, W.PF_ALL, [0, 0, 0, rng.below(2)], [m]), "fd-request-ack-fails"))
        return out

    def nontrivial(self, args, obs):
        return True
