import json, sys
from .core import split_top
def show(path, k=5):
    p = json.load(open(path))
    for d in p.get("correspondence_differences", [])[:k]:
        print("LABEL", d.get("label"), d.get("note", ""))
        print("CASE ", d["case"][:1500])
        i, m = split_top(d["impl"] or ""), split_top(d["model"] or "")
        for j, (a, b) in enumerate(zip(i, m)):
            if a != b:
                print(f" part {j}:\n   impl : {a[:1200]}\n   model: {b[:1200]}")
        print()
if __name__ == "__main__":
    show(sys.argv[1], int(sys.argv[2]) if len(sys.argv) > 2 else 5)
