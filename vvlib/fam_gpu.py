# family "gpu": the GPU proxy (GpuBackend) against a scripted raw peer (C06 for the GPU channel, wire shape).
from .core import VN, VS, VH, VL
from .engine import Family

TABLE = {  # op: (code, body size, reply body size or None)
    "get_protocol_features": (1, 0, 8), "set_protocol_features": (2, 8, None), "get_display_info": (3, 0, 408),
    "cursor_pos": (4, 12, None), "cursor_pos_hide": (5, 12, None), "cursor_update": (6, 20, None), "set_scanout": (7, 12, None),
    "update_scanout": (8, 20, None), "set_dmabuf_scanout": (9, 40, None), "update_dmabuf_scanout": (10, 20, 0),
    "get_edid": (11, 4, 1056), "set_dmabuf_scanout2": (12, 48, None)}


def le32(v):
    return int(v).to_bytes(4, "little")


def step(op, nums=(), data=b"", fds=(), segs=()):
    return VL([VS(op), VL([VN(x) for x in nums]), VH(data), VL([VN(f) for f in fds]),
               VL([VL([VH(b), VL([VN(f) for f in sf])]) for b, sf in segs])])


class Gpu(Family):
    name = "gpu"
    shards = 16
    spec = True

    def answer(self, rng, op, kind):
        """the bytes the peer feeds: conforming, or mutated field by field"""
        code, _, rsize = TABLE[op]
        body = rng.bytes(rsize)
        hdr = [code, 4, rsize]
        fds = []
        if kind == "code":
            hdr[0] = rng.choice([c for c in range(0, 14) if c != code])
        elif kind == "flags":
            hdr[1] = rng.choice([0, 1, 5, 8, 12, 0x80000004])
        elif kind == "short":
            body = body[:max(0, rsize - 1 - rng.below(4))] if rsize else b""
            if rsize == 0:
                return [(le32(hdr[0]) + le32(hdr[1]) + le32(hdr[2])[:rng.below(4)], [])]
        elif kind == "fd":
            fds = [50 + rng.below(3)]
        elif kind == "none":
            return []
        elif kind == "sizefield":
            hdr[2] = rng.choice([0, rsize + 1, 2**32 - 1])
        raw = le32(hdr[0]) + le32(hdr[1]) + le32(hdr[2]) + body
        if kind == "split" and len(raw) > 13:
            k = rng.choice([1, 11, 12, 13, len(raw) - 1])
            return [(raw[:k], fds), (raw[k:], [])]
        return [(raw, fds)]

    def one(self, rng, op, kind="ok"):
        u = lambda: rng.choice([0, 1, 640, 2**31, 2**32 - 1, rng.below(2**32)])
        if op in ("get_protocol_features", "get_display_info"):
            return step(op, segs=self.answer(rng, op, kind))
        if op == "get_edid":
            return step(op, [u()], segs=self.answer(rng, op, kind))
        if op == "update_dmabuf_scanout":
            return step(op, [u() for _ in range(5)], segs=self.answer(rng, op, kind))
        if op == "set_protocol_features":
            return step(op, [rng.choice([0, 1, 2**63, 2**64 - 1])])
        if op in ("set_scanout", "cursor_pos", "cursor_pos_hide"):
            return step(op, [u(), u(), u()])
        if op == "update_scanout":
            return step(op, [u() for _ in range(5)], rng.bytes(rng.choice([0, 1, 16, 300])))
        if op == "cursor_update":
            return step(op, [u() for _ in range(5)], rng.bytes(rng.choice([1, 4, 7])))
        if op == "set_dmabuf_scanout":
            return step(op, [u() for _ in range(10)], fds=[40 + rng.below(3)] if rng.chance(2, 3) else [])
        return step(op, [u() for _ in range(10)] + [rng.choice([0, 2**63, 2**64 - 1])], fds=[40 + rng.below(3)] if rng.chance(2, 3) else [])

    def generate(self, rng, tier):
        out = []
        reps = 2 if tier == "quick" else 12
        replying = [o for o, t in TABLE.items() if t[2] is not None]
        for _ in range(reps):
            # every operation, conforming answers
            for op in TABLE:
                if op == "cursor_update" and rng.chance(1, 2):
                    continue
                out.append(([VL([self.one(rng, op)])], "conforming"))
            # every replying operation x every mutation of the answer
            for op in replying:
                for kind in ("code", "flags", "short", "fd", "none", "sizefield", "split"):
                    out.append(([VL([self.one(rng, op, kind)])], "answer-" + kind))
            # short histories: the proxy must stay usable / in step after conforming exchanges
            for _ in range(6):
                steps = [self.one(rng, rng.choice([o for o in TABLE if o != "cursor_update"])) for _ in range(2 + rng.below(4))]
                out.append(([VL(steps)], "history"))
        return out
