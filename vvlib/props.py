# property table: what each check builds, proves and runs
from .fam_valid import Valid
from .fam_be import Be

PROPS = {}


def reg(**kw):
    PROPS[kw["id"]] = kw


reg(id="C20",
    props="Props/C20.v",
    proof_files=["Proofs/C20Proofs.v", "Spec/ValidityDec.v"],
    families=[Valid()],
    exhaustive=True,
    rule="family valid: the full product of per-field boundary sets of every message type (enumerated completely), "
         "every request code in a window around the defined ranges, wrong-length inputs, plus random bit patterns; "
         "a case is non-trivial when the validator actually ran (observation true/false, not a length rejection); "
         "distinct = distinct (input, observation) pairs",
    assumptions=[
        "Spec/Validity.v is a faithful transcription of the validity rules quoted in property C20",
        "rs2v translates the validator bodies faithfully (checked on every case of this run against the real is_valid())",
        "field values range over the width of their wire type (hypotheses of the theorems)",
    ])


reg(id="BE-DEV",
    props="Props/C20.v",
    families=[Be()],
    rule="development entry for the be family")
