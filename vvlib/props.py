# property table: what each check builds, proves and runs
from .fam_valid import Valid
from .fam_be import Be, BGone
from .fam_seg import Seg
from .fam_iovs import Iovs
from .fam_fe import Fe, FeTrunc
from .fam_sess import Sess
from .fam_tx import Tx
from .fam_proxy import Fsrv, Proxy, Psess, ProxyTrunc
from .fam_dmn import Dmn, DmnReplies
from .fam_shut import Shut
from .fam_kern import Kern
from .fam_race import Race
from .fam_conc import Conc
from .fam_gpu import Gpu

PROPS = {}


def reg(**kw):
    PROPS[kw["id"]] = kw


reg(id="C20",
    props="Props/C20.v",
    proof_files=["Proofs/C20Proofs.v", "Spec/ValidityDec.v"],
    families=[Valid()],
    exhaustive=True,
    rule="family valid: the full product of per-field boundary sets of every message type (enumerated completely), "
         "every request code in a window around the defined ranges, wrong-length inputs, plus random bit patterns; "
         "a case is non-trivial when the validator actually ran (observation true/false, not a length rejection); "
         "distinct = distinct (input, observation) pairs",
    assumptions=[
        "Spec/Validity.v is a faithful transcription of the validity rules quoted in property C20",
        "rs2v translates the validator bodies faithfully (checked on every case of this run against the real is_valid())",
        "field values range over the width of their wire type (hypotheses of the theorems)",
    ])


FE_TB = ["hand model Model/Frontend.v of every frontend operation and of the receive paths (tied to the code by the correspondence family fe on every run)",
         "Spec/FeSpec.v, Spec/WireConsts.v, Spec/Gates.v: my transcription of request codes, payload layouts, reply kinds and gates"]
FE_RULE = ("family fe: sequences of real Frontend operations (all 32 public operations, lattice/random arguments, queue indexes around the "
           "known maximum, config windows over the whole range, 0..33 regions, every descriptor kind) after a negotiation prefix, against a raw "
           "socket peer whose reply is scripted: the conformant reply of an independent encoder, or a mutation of it (code, each flag bit, "
           "version, size, body bytes, 0..3 descriptors, truncation, split, garbage, no answer); the interposed recvmsg ends the stream after "
           "the script so that no call can block; observation = result and the exact bytes/descriptors written; judged per step by Spec/FeSpec.v "
           "(C01 wire bytes, C02 silent local rejection, C03 result fidelity, C06 reply acceptance, C07 gating); non-trivial = something was written")
SESS_RULE = ("family sess: the real Frontend against the real BackendReqHandler (served until the first error and then closed, as the daemon does) "
             "over a socketpair with a recording handler behind the Mutex adapter: a negotiation through the real endpoints followed by 1..7 operations "
             "with lattice/random arguments and scripted handler outcomes (ok / error / unusable result); a watchdog turns a call that does not return "
             "within 0.7 s into the observation 'blocked'; judged by Spec/SessSpec.v: exactly one handler invocation with equal arguments and the same "
             "files (by device+inode), results equal to what the handler produced, failures never reported as success, no call left waiting")
BE_TB = ["hand model Model/BeServer.v + Model/Transport.v of handle_request and the receive paths (tied to the code by the correspondence family be on every run)",
         "Spec/BeSpec.v: my transcription of the request table (reply kinds, gates, validity of handler invocations)"]
BE_ASSUME = ["Linux stream-socket/SCM_RIGHTS delivery as modelled in Model/Transport.v (a recvmsg never crosses a segment boundary; descriptors ride on the first byte of a segment)",
             "application handlers are arbitrary (scripted outcomes in the executable model; the theorems quantify over them)",
             "RAII: a File that goes out of scope is closed"]
BE_RULE = ("family be: request histories fed to the real BackendReqHandler by a raw socket peer - structured mostly-valid "
           "histories with lattice/random field values after a (partial) negotiation, a malformed stream (grammar-aware mutations: "
           "size, flags, version, code, truncated/extended bodies, 0..40 descriptors, body split off with descriptors), and all "
           "depth-2 histories over a 12-request alphabet x NEED_REPLY x handler outcome after three negotiation prefixes; "
           "non-trivial = at least one handler invocation; distinct = distinct (case, observation) pairs")

reg(id="C04", props="Props/C04.v", proof_files=["Proofs/BeProofs.v", "Proofs/TableProofs.v"], families=[Be()],
    rule=BE_RULE, trusted_base=BE_TB, assumptions=BE_ASSUME)
reg(id="C07", props="Props/C07.v", proof_files=["Proofs/BeProofs.v", "Proofs/TableProofs.v", "Proofs/FeProofs.v"], families=[Be(), Fe(), Proxy()],
    rule=BE_RULE + " || " + FE_RULE, trusted_base=BE_TB + ["Spec/Gates.v: operation -> gating feature table"], assumptions=BE_ASSUME)
reg(id="C09", props="Props/C09.v", proof_files=["Proofs/BeProofs.v"], families=[Be(), Fsrv(), Dmn(), BGone()],
    rule=BE_RULE + "; descriptors are distinct memfds identified by inode; leak = known inodes still open after dropping server, handler state and peer, plus growth of /proc/self/fd"
    " || family dmn: every daemon history (ring, memory, log, adversarial, backend-request-channel, routing) ends with a teardown step: frontend, connection, daemon and all "
    "harness-side descriptors dropped, then /proc/self/fd is counted against the count taken before the daemon was built; kick/call/err descriptors replaced while a ring "
    "is started, memory and log descriptors replaced, channel descriptors replaced are part of those histories",
    trusted_base=BE_TB, assumptions=BE_ASSUME + ["the kernel disposes of SCM_RIGHTS descriptors that were never received when the socket is closed"])

reg(id="C08", props="Props/C08.v", proof_files=["Proofs/TransportProofs.v", "Proofs/FramingProofs.v", "Proofs/FeRecvProofs.v"],
    families=[Seg(), Iovs(), Tx(), FeTrunc(), ProxyTrunc()],
    rule="family fe (truncated-reply cases only): a negotiated session, then every reply-bearing and acknowledged frontend operation whose conformant "
         "reply ends at offsets 0, 1, 11, 12, 13, 20, 23, 24, 25, len-1, random followed by the peer closing: the call must fail. family proxy (truncated-ack cases only): every proxy operation, the zero acknowledgement cut at every offset 0..19. family seg: clean request histories (as family be) where one message is delivered under every 2-split at characteristic "
         "offsets (1, 11, 12, 13, len-1, random), random 3-splits, byte-by-byte, and all messages split at the header boundary, "
         "forced deterministically by the interposed recvmsg; and the stream cut at offsets 0, 1, 11, 12, 13, len-1, random of a "
         "message followed by end-of-stream; each case runs the real server twice (whole / variant). family iovs: "
         "get_sub_iovs_offset on all length vectors over {0,1,2,3,12} up to 3 entries x every skip, plus random. "
         "family tx: one frontend request (incl. descriptor-carrying ones) written through an interposed sendmsg that refuses the write "
         "with EAGAIN and/or accepts only k bytes per call (refused first, byte by byte, one short write, random); the peer reads byte by byte so that "
         "the byte the descriptors ride on is known; judged against the specification encoding. non-trivial = the whole run invoked a handler",
    trusted_base=BE_TB, assumptions=BE_ASSUME + ["sender side: sendmsg accepts a prefix of the offered bytes or fails with an errno (oracle); "
                                                   "SCM_RIGHTS of a partially accepted sendmsg travel with its first byte"])
reg(id="C01", props="Props/C01.v", proof_files=["Proofs/WireProofs.v", "Proofs/CodecProofs.v", "Proofs/TxSpecProofs.v", "Proofs/FwdProofs.v"], families=[Fe(), Be(), Tx()],
    rule=FE_RULE + " || " + BE_RULE + " || family tx: every descriptor-carrying frontend request through a socket whose first sendmsg is refused (EAGAIN) or "
    "accepts k bytes: the descriptors must ride on the first byte that reaches the wire", trusted_base=FE_TB + BE_TB, assumptions=BE_ASSUME)
reg(id="C02", props="Props/C02.v", proof_files=["Proofs/FeProofs.v", "Proofs/BeProofs.v", "Proofs/TableProofs.v", "Proofs/CodecProofs.v", "Proofs/E2EProofs.v", "Proofs/TxSpecProofs.v"], families=[Sess(), Fe(), Be()],
    rule=SESS_RULE + " || " + FE_RULE + " || " + BE_RULE, trusted_base=FE_TB + BE_TB, assumptions=BE_ASSUME)
reg(id="C03", props="Props/C03.v", proof_files=["Proofs/FeProofs.v", "Proofs/BeProofs.v"], families=[Sess(), Fe(), Be(), DmnReplies()],
    rule=SESS_RULE + " || " + FE_RULE + " || " + BE_RULE, trusted_base=FE_TB + BE_TB, assumptions=BE_ASSUME)
PX_RULE = ("family fsrv: request streams fed to the real FrontendReqHandler by a raw peer (all ten backend-request codes, valid and invalid UUIDs / "
           "mapping descriptors, NEED_REPLY and REPLY bits, 0..33 descriptors, grammar-aware mutations) with scripted handler results (0, non-zero, "
           "errno classes, error without errno), REPLY_ACK on/off; family proxy: the real Backend proxy against a scripted peer whose acknowledgement "
           "is conformant or mutated field by field; family psess: the real proxy against the real server with a recording handler and a watchdog; "
           "judged by Spec/ProxySpec.v")
PX_TB = ["hand models Model/Proxy.v of the Backend proxy and of FrontendReqHandler::handle_request (tied by families fsrv, proxy, psess)",
         "Spec/ProxySpec.v: my transcription of the backend-request table, the acknowledgement rule and the validity of handler invocations"]
reg(id="C06", props="Props/C06.v", proof_files=["Proofs/FeProofs.v", "Proofs/ProxyProofs.v", "Proofs/GpuProofs.v", "Proofs/FeRecvProofs.v"], families=[Fe(), Fsrv(), Proxy(), Gpu()],
    rule=FE_RULE + " || " + PX_RULE, trusted_base=FE_TB + PX_TB, assumptions=BE_ASSUME)
reg(id="C18", props="Props/C18.v", proof_files=["Proofs/ProxyProofs.v", "Proofs/FwdProofs.v"], families=[Psess(), Fsrv(), Proxy()],
    rule=PX_RULE, trusted_base=PX_TB, assumptions=BE_ASSUME)
DMN_RULE = ("family dmn: a real VhostUserDaemon (Mutex- and RwLock-backed rings) with a recording backend, driven through its socket by the real "
            "Frontend with acknowledgements on: random histories of SET_FEATURES with/without PROTOCOL_FEATURES, SET_VRING_KICK with new descriptors, "
            "SET_VRING_CALL, SET_VRING_ENABLE 0/1, GET_VRING_BASE, RESET_DEVICE and guest kicks on 1..6 rings over a table of mask sets (sparse, "
            "interleaved, overlapping, bits beyond the queue count); routing cases for every mask set x every queue kicked; custom listener ids "
            "num_queues, num_queues+1, 255, 65535, 65536+k, 2^32+k, 0. After every step each worker is drained through a custom listener, so 'no dispatch' "
            "is observed without sleeping; rings are told apart by distinct configured sizes. Judged by Spec/DaemonSpec.v (which dispatches are due, to which "
            "worker, with which id and ring)")
DMN_TB = ["hand model Model/Daemon.v of the daemon's control plane, epoll registrations and worker poll (tied by family dmn)",
          "Spec/DaemonSpec.v: my transcription of the ring life-cycle and routing rules from the property text"]
DMN_ASSUME = ["level-triggered epoll; eventfd counter semantics; an epoll registration outlives close() while another descriptor of the same open file exists",
              "std::sync lock mutual exclusion"]
reg(id="C11", props="Props/C11.v", proof_files=["Proofs/DaemonProofs.v", "Proofs/RingInvProofs.v", "Proofs/CtlProofs.v"], families=[Dmn()], rule=DMN_RULE, trusted_base=DMN_TB, assumptions=DMN_ASSUME)
reg(id="C17", props="Props/C17.v", proof_files=["Proofs/DaemonProofs.v"], families=[Dmn()], rule=DMN_RULE, trusted_base=DMN_TB, assumptions=DMN_ASSUME)
MEM_RULE = (DMN_RULE + " || memory histories: SET_MEM_TABLE with 1..8 regions (sorted, unordered, duplicate, overlapping, unaligned mmap offsets), "
            "ADD_MEM_REG / REM_MEM_REG (absent, size-mismatched, shifted), user ranges across the 64-bit space, guest-side pwrite/pread on the shared files, "
            "backend-side reads/writes through the memory object handed to update_memory at region edges and just outside, SET_VRING_NUM over "
            "{0,1,2,3,...,max,max+1,65535}, SET_VRING_BASE, SET_VRING_ADDR with addresses at region edges (after planting a used index in guest memory), "
            "queue accessors sampled inside the backend's event handler, add_used / signal_used_queue from the worker, SET_VRING_CALL + eventfd counter reads, "
            "SET_FEATURES subsets/supersets; judged by Spec/MemSpec.v (own table, own file bytes, own ring configuration)")
MEM_TB = DMN_TB + ["Spec/MemSpec.v: my transcription of C13/C14 from the property text",
                   "mmap(MAP_SHARED) coherence between a memfd's mapping and pread/pwrite on it (kernel)"]
reg(id="C13", props="Props/C13.v", proof_files=["Proofs/MemProofs.v"], families=[Dmn()], rule=MEM_RULE, trusted_base=MEM_TB, assumptions=DMN_ASSUME)
reg(id="C14", props="Props/C14.v", proof_files=["Proofs/MemProofs.v", "Proofs/CtlProofs.v"], families=[Dmn()], rule=MEM_RULE, trusted_base=MEM_TB, assumptions=DMN_ASSUME)
LOG_RULE = (MEM_RULE + " || dirty log: SET_LOG_BASE with windows from too small to ample, non-zero and unaligned offsets, before/after memory-table "
            "changes; backend writes (write_slice, add_used, 2..16 concurrent writer threads on pages sharing log bytes) at page and region edges; the shared "
            "log file is read back (touched words, guard bytes before and after the window) and compared with Spec/MemSpec.v's own page-set oracle")
reg(id="C15", props="Props/C15.v", proof_files=["Proofs/LogProofs.v", "Proofs/MemProofs.v"], families=[Dmn()], rule=LOG_RULE, trusted_base=MEM_TB,
    assumptions=DMN_ASSUME + ["AtomicU8::fetch_or is atomic (platform)"])
reg(id="C05", props="Props/C05.v", proof_files=["Proofs/C05Proofs.v", "Proofs/C20Proofs.v", "Proofs/MemProofs.v"], families=[Be(), Dmn(), Seg()],
    rule=BE_RULE + " (every recorded handler call is judged by Spec.BeSpec.valid_call_b; a panic of the server is an observation no model run produces) || "
         + MEM_RULE + " || adversarial histories: a running daemon receives well-typed messages whose 64-bit fields sit on the boundaries (0, 1, 2^12+-1, 2^32+-1, 2^48, "
         "2^63+-1, 2^64-4096.., 2^64-1): memory tables with wrapping / huge / unaligned regions, ring addresses above a user range at the top of the address space, "
         "ring indexes up to 2^64-1, log windows with huge sizes and offsets; the harness is built with overflow checks and debug assertions and counts panics on every "
         "thread (step 'panics')",
    trusted_base=BE_TB + MEM_TB, assumptions=BE_ASSUME + DMN_ASSUME)
SHUT_RULE = ("family shut: a real VhostUserDaemon (1 or 2 workers, exit events supplied) is brought to a position by a raw peer - idle, k bytes into a header, "
             "header read and body pending, inside the handler (the backend's features() callback blocks on a gate), after 1..3 replies, peer closed, peer closed "
             "k bytes into a request, invalid request, peer closed while the reply is about to be written - then shutdown is requested by 1..3 concurrent callers "
             "(once or repeatedly, also through request_shutdown) or not at all; wait() runs under a 2.5 s watchdog and is called twice; the peer reads until "
             "end-of-stream; a second connection is accepted and served; the daemon is dropped and the process's vring_worker threads are counted; serve() is "
             "exercised with clean, partial-header and invalid-request peers. Judged by Spec/ShutSpec.v")
SHUT_TB = ["hand model Model/Shutdown.v of lib.rs (daemon thread loop, ShutdownHandle, wait classification), tied by family shut",
           "Spec/ShutSpec.v: my transcription of C16 outcomes", "socket shutdown(2)/EPIPE semantics of AF_UNIX stream sockets (kernel)"]
reg(id="C16", props="Props/C16.v", proof_files=["Proofs/ShutBase.v", "Proofs/ShutProofs.v", "Proofs/LifeProofs.v"], families=[Shut()], rule=SHUT_RULE, trusted_base=SHUT_TB,
    assumptions=["a blocked recvmsg returns 0 after shutdown(SHUT_RDWR) on the same socket; sendmsg on it fails with EPIPE", "thread join returns the thread's result"])
KERN_RULE = ("family kern: every trait operation of Vsock, Net and VhostKernVdpa on a dummy descriptor with ioctl (and open of /dev/vhost-*) interposed in the "
             "harness binary: queue indexes up to 2^32+, 64-bit boundary values, region tables of 0..300 entries, config buffers of 0..256 bytes, IOTLB map/unmap "
             "under every acknowledged-feature selection of v1/v2, valid and invalid ring configurations over a two-region guest memory; the interposer records "
             "(request, argument bytes) and writes a pattern back; host addresses are mapped back to guest addresses by the harness's own knowledge of the mapping; "
             "compared with Spec/KernSpec.v, whose numbers and offsets come from the installed UAPI headers through the C compiler")
KERN_TB = ["tools/uapi_gen.py + cc + /usr/include/linux/vhost.h, vhost_types.h (the UAPI side of every equality)", "rs2v kern.rs (macro arguments, struct fields, requests per operation body)",
           "Base/CLayout.v: System V x86-64 struct layout rules", "Spec/KernSpec.v: my transcription of the operation -> request assignment and of the argument contents",
           "the harness's ioctl/open64 interposition (symbols defined in the executable take precedence over libc)"]
reg(id="C19", props="Props/C19.v", proof_files=["Proofs/KernProofs.v"], families=[Kern()], rule=KERN_RULE, trusted_base=KERN_TB,
    assumptions=["the C compiler's sizeof/offsetof and macro expansion are the kernel ABI"])
RACE_RULE = ("family race: one ring, one worker, a real daemon built with hold points (cfg(vhost_verif)) at worker:after_epoll (event taken out of epoll_wait, kick "
             "not yet read), worker:after_read (kick read, handler not yet entered), ctl:after_state and ctl:after_epoll (inside SET_VRING_ENABLE / GET_VRING_BASE); "
             "schedules as token programs (arm/wait/release a point, kick, start/join a control message, settle through a probe listener) for disable/enable, "
             "stop/restart, reset/enable and their combination: worker held at either point while the disabling message completes (with and without a further kick, "
             "released before or after the enabling message), control thread held at either point while kicks arrive and the worker runs, both held; the observation is "
             "the ordered log of kicks, control starts, replies and handler entries plus the kick counter left; judged by Spec/RaceSpec.v")
RACE_TB = ["hand model Model/Race.v of event_loop.rs run()/handle_event, vring.rs read_kick and the enable/stop/reset control paths, tied by family race",
           "Spec/RaceSpec.v: my transcription of C12 over schedule logs", "the hold-point hooks (vhost::vhost_user::verif_hooks::hold) park the thread and change nothing else"]
reg(id="C12", props="Props/C12.v", proof_files=["Proofs/RaceBase.v", "Proofs/RaceProofs.v", "Proofs/CtlRaceProofs.v", "Proofs/WkProofs.v"], families=[Race()], rule=RACE_RULE, trusted_base=RACE_TB,
    assumptions=DMN_ASSUME)
CONC_RULE = ("family conc: 2..3 threads released together, each calling one operation (reply-bearing get_vring_base / get_queue_num / get_features, acknowledged "
             "set_vring_num, unacknowledged set_vring_base; shared_object_add on the Backend proxy; get_protocol_features on the GpuBackend) through clones of one endpoint, "
             "against a scripted raw peer that delays every answer by 10-20 ms while polling the socket: a request arriving while another is unanswered is an overlap; "
             "replies are tagged by the request (GET_VRING_BASE index -> 1000+index) so each caller checks it got its own; a 3 s watchdog detects self-deadlock")
CONC_TB = ["rs2v lock events (self.node() / .lock() acquisitions, drop(), socket traffic per method)", "Model/Conc.v: calls of the regenerated shape as lock/send/recv/unlock steps",
           "std::sync::Mutex mutual exclusion; a MutexGuard bound by let lives to the end of the method body"]
reg(id="C10", props="Props/C10.v", proof_files=["Proofs/ConcProofs.v"], families=[Conc()], rule=CONC_RULE, trusted_base=CONC_TB,
    assumptions=["std::sync::Mutex mutual exclusion", "Rust drop order: a guard bound by let is released at the end of its scope"])
reg(id="BE-DEV",
    props="Props/C20.v",
    families=[Be()],
    rule="development entry for the be family")

reg(id="SEG-DEV", props="Props/C20.v", families=[Seg()], rule="dev")

class FeNoSpec(Fe):
    spec = False
reg(id="FE-DEV", props="Props/C20.v", families=[Fe()], rule="dev")

class SessNoSpec(Sess):
    spec = False
reg(id="SESS-DEV", props="Props/C20.v", families=[Sess()], rule="dev")

reg(id="PX-DEV", props="Props/C20.v", families=[Fsrv(), Proxy(), Psess()], rule="dev")

reg(id="GPU-DEV", props="Props/C20.v", families=[Gpu()], rule="dev")
reg(id="DMN-DEV", props="Props/C20.v", families=[Dmn()], rule="dev")
