# family "conc": concurrent callers on clones of one endpoint against a delaying, watching peer (C10).
from .core import VN, VS, VL
from .engine import Family


def case(endpoint, ops, delay=15, reps=1):
    return [VS(endpoint), VL([VL([VS(o), VN(a)]) for o, a in ops]), VN(delay), VN(reps)]


class Conc(Family):
    name = "conc"
    shards = 16
    spec = True

    def generate(self, rng, tier):
        out = []
        reps = 2 if tier == "quick" else 10
        fe_ops = ["get_vring_base", "get_queue_num", "set_vring_num", "set_vring_base", "get_features"]
        for _ in range(reps):
            # every mix of two operations, and random mixes of three
            for a in fe_ops:
                for b in fe_ops:
                    out.append((case("frontend", [(a, 1), (b, 2)], rng.choice([10, 20])), "frontend-2"))
            for _ in range(10):
                ops = [(rng.choice(fe_ops), i + 1) for i in range(3)]
                out.append((case("frontend", ops, rng.choice([10, 20])), "frontend-3"))
            # stress: many fast iterations per caller, the peer answers at once and looks for a second request already waiting
            for ops in ([("get_vring_base", 1), ("get_vring_base", 2), ("get_features", 3)],
                        [("get_vring_base", 1), ("set_vring_num", 2), ("get_queue_num", 3)],
                        [("get_features", 1), ("get_vring_base", 2)]):
                out.append((case("frontend", ops, 0, 3000), "frontend-stress"))
            # SET_LOG_BASE with a log region (the form that reads a reply) against reply-bearing and acknowledged calls
            out.append((case("frontend", [("set_log_base", 1), ("get_features", 2), ("get_vring_base", 3)], 0, 3000), "frontend-stress"))
            out.append((case("frontend", [("set_log_base", 1), ("set_log_base", 2), ("set_vring_num", 3)], 0, 3000), "frontend-stress"))
            for b in fe_ops:
                out.append((case("frontend", [("set_log_base", 1), (b, 2)], rng.choice([10, 20])), "frontend-2"))
            out.append((case("proxy", [("shared_object_add", i) for i in range(3)], 0, 3000), "proxy-stress"))
            # every operation of the backend-request proxy that reads an acknowledgement, one caller accepted and one
            # refused by the peer, so that an acknowledgement that reaches the wrong caller shows in its result
            out.append((case("proxy", [("shmem_map", 1), ("shmem_unmap", 200), ("shared_object_add", 2)], 0, 3000), "proxy-stress"))
            out.append((case("proxy", [("shmem_unmap", 1), ("shmem_unmap", 201)], 0, 3000), "proxy-stress"))
            out.append((case("proxy", [("shmem_map", 1), ("shmem_map", 202), ("shared_object_remove", 3)], 0, 3000), "proxy-stress"))
            out.append((case("proxy", [("shared_object_add", 1), ("shared_object_remove", 203)], 0, 3000), "proxy-stress"))
            # the acknowledgement setting is switched off and on by one clone while others have calls in flight (accepted ids only:
            # with acknowledgements off a refusal cannot be seen)
            out.append((case("proxy", [("shared_object_add", 1), ("shmem_unmap", 2), ("toggle_ack", 0)], 0, 3000), "proxy-stress"))
            out.append((case("proxy", [("shmem_map", 1), ("toggle_ack", 0)], 0, 3000), "proxy-stress"))
            out.append((case("proxy", [("shared_object_remove", 1), ("toggle_ack", 0)], rng.choice([10, 20]), 3), "proxy-2"))
            px_ops = ["shared_object_add", "shared_object_remove", "shmem_map", "shmem_unmap"]
            for a in px_ops:
                for b in px_ops:
                    out.append((case("proxy", [(a, 1), (b, rng.choice([2, 200]))], rng.choice([10, 20])), "proxy-2"))
            out.append((case("gpu", [("get_protocol_features", 0)] * 3, 0, 3000), "gpu-stress"))
            # acknowledged, reply-bearing and fire-and-forget GPU operations mixed
            out.append((case("gpu", [("update_dmabuf_scanout", 0), ("get_protocol_features", 0), ("get_protocol_features", 0)], 0, 3000), "gpu-stress"))
            out.append((case("gpu", [("update_dmabuf_scanout", 0), ("cursor_pos", 0), ("get_protocol_features", 0)], 0, 3000), "gpu-stress"))
            out.append((case("gpu", [("update_dmabuf_scanout", 0), ("update_dmabuf_scanout", 0)], 0, 3000), "gpu-stress"))
            for a in ("update_dmabuf_scanout", "cursor_pos", "get_protocol_features"):
                for b in ("update_dmabuf_scanout", "get_protocol_features"):
                    out.append((case("gpu", [(a, 0), (b, 0)], rng.choice([10, 20])), "gpu-2"))
            for n in (2, 3):
                out.append((case("proxy", [("shared_object_add", i) for i in range(n)], 15), "proxy"))
                out.append((case("gpu", [("get_protocol_features", 0)] * n, 15), "gpu"))
        return out
