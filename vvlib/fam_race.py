# family "race": forced interleavings of a ring worker with the control path on a real daemon (C12).
from .core import VS, VL
from .engine import Family


def prog(*toks):
    return [VL([VL([VS(a), VS(b)]) for a, b in toks])]


PAIRS = [("disable", "enable"), ("stop", "restart"), ("reset", "reenable")]
HOOKED = {"disable", "enable", "stop"}


class Race(Family):
    name = "race"
    shards = 16
    spec = True

    def canon(self, obs):
        # the worker thread logs "dispatch", the driving thread logs the hold-point markers and the replies of
        # enabling messages: within a run of such entries the order is decided by the scheduler, not by the token
        # program (and is immaterial to C12: only a dispatch after a *disabling* reply, or a missing one, counts)
        import re
        ents = re.findall(r'\(VS "([^"]*)"\)', obs)
        def loose(e):
            return e == "dispatch" or e.startswith("held:ctl:") or e.startswith("not-held:ctl:") or \
                re.match(r"reply:(enable|reenable|restart):", e) is not None
        out, block = [], []
        for e in ents + [None]:
            if e is not None and loose(e):
                block.append(e)
            else:
                out += [x for x in block if x == "dispatch"] + [x for x in block if x != "dispatch"]
                block = []
                if e is not None:
                    out.append(e)
        return "|".join(out)

    def generate(self, rng, tier):
        out = []
        K, S, J = ("kick", ""), ("settle", ""), ("join", "")
        for x, y in PAIRS:
            # no hold points: sequential sanity
            out.append((prog(K, S, ("ctl", x), J, K, S, ("ctl", y), J, S, K, S), f"plain:{x}"))
            out.append((prog(("ctl", x), J, K, K, S, ("ctl", y), J, S), f"plain-pending:{x}"))
            for hw in ("worker:after_epoll", "worker:after_read"):
                # the worker is woken (resp. has read the kick) and is held while the disabling message is processed
                for extra in (0, 1):
                    t = [("arm", hw), K, ("wait", hw), ("ctl", x), J] + ([K] if extra else []) + [("release", hw), S, ("ctl", y), J, S]
                    out.append((prog(*t), f"{hw}:{x}"))
                # ... and is released only after the enabling message as well
                out.append((prog(("arm", hw), K, ("wait", hw), ("ctl", x), J, ("ctl", y), J, ("release", hw), S, K, S), f"{hw}:{x}:late-release"))
            for hc in ("ctl:after_state", "ctl:after_epoll"):
                if x in HOOKED:
                    # the control thread is held inside the disabling message while a kick arrives and the worker runs
                    out.append((prog(("arm", hc), ("ctl", x), ("wait", hc), K, S, ("release", hc), J, S, ("ctl", y), J, S), f"{hc}:{x}"))
                    out.append((prog(K, S, ("arm", hc), ("ctl", x), ("wait", hc), K, S, ("release", hc), J, K, S, ("ctl", y), J, S), f"{hc}:{x}:kicks"))
                if y in HOOKED:
                    # ... or inside the enabling message, with a kick waiting
                    out.append((prog(("ctl", x), J, K, S, ("arm", hc), ("ctl", y), ("wait", hc), S, K, S, ("release", hc), J, S), f"{hc}:{y}"))
                for hw in ("worker:after_epoll", "worker:after_read"):
                    if x in HOOKED:
                        # both threads held: the worker first, then the control thread inside the message; the worker continues first
                        out.append((prog(("arm", hw), K, ("wait", hw), ("arm", hc), ("ctl", x), ("wait", hc), ("release", hw), S,
                                         ("release", hc), J, S, ("ctl", y), J, S), f"{hw}+{hc}:{x}"))
        # the combined scenario
        out.append((prog(K, S, ("ctl", "disable"), J, K, ("ctl", "stop"), J, S, ("ctl", "restart"), J, S, ("ctl", "enable"), J, S), "combined"))
        out.append((prog(("arm", "worker:after_read"), K, ("wait", "worker:after_read"), ("ctl", "disable"), J, ("ctl", "stop"), J,
                         ("release", "worker:after_read"), S, ("ctl", "restart"), J, ("ctl", "enable"), J, S, K, S), "combined-held"))
        # the kick descriptor of a started, enabled ring is sent again (the same eventfd): no kick before, between or
        # after may be lost, with the worker free and with the worker held across the replacement
        out.append((prog(K, S, ("ctl", "restart"), J, K, S, K, S, ("ctl", "restart"), J, K, S), "replace-kick"))
        out.append((prog(("ctl", "restart"), J, K, K, S, K, S), "replace-kick"))
        for hw in ("worker:after_epoll", "worker:after_read"):
            out.append((prog(("arm", hw), K, ("wait", hw), ("ctl", "restart"), J, ("release", hw), S, K, S, K, S), f"{hw}:replace-kick"))
        if tier != "quick":
            out = out * 4
        return out

    def signature(self, args, obs):
        return "race"
