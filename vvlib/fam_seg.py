# family "seg" (C08): the same clean request history delivered under different
# segmentations, and truncated at every kind of offset.
from . import wire as W
from .core import VN, VS, VH, VL, split_top
from .engine import Family
from .fam_be import Be


def enc_msgs(msgs):
    return VL([VL([VH(b), VL([VN(f) for f in fds])]) for b, fds in msgs])


def split_at(b, fds, cuts):
    out, prev = [], 0
    for c in sorted(set(c for c in cuts if 0 < c < len(b))):
        out.append((b[prev:c], fds if prev == 0 else []))
        prev = c
    out.append((b[prev:], fds if prev == 0 else []))
    return out


class Seg(Family):
    name = "seg"
    shards = 16

    def case(self, feat, pfeat, outs, whole, variant, kind, k, o):
        return [VL([VN(feat), VN(pfeat)]), VL([VN(x) for x in outs]), enc_msgs(whole), enc_msgs(variant), VN(kind), VN(k), VN(o)]

    def generate(self, rng, tier):
        out = []
        be = Be()
        n_hist = 60 if tier == "quick" else 400
        for _ in range(n_hist):
            feat, pfeat, outs, msgs = be.one_raw(rng, False, 5)
            # pick the message to play with: prefer ones with a body
            with_body = [i for i, (b, _) in enumerate(msgs) if len(b) > 12] or list(range(len(msgs)))
            i = rng.choice(with_body)
            b, fds = msgs[i]
            # every 2-split of that message (header/body boundary always included)
            cutset = sorted(set([12, 1, 11, 13, len(b) - 1] + [rng.below(len(b)) for _ in range(4)]))
            if tier == "thorough" and len(b) <= 64:
                cutset = list(range(1, len(b)))
            for c in cutset:
                if 0 < c < len(b):
                    var = msgs[:i] + split_at(b, fds, [c]) + msgs[i + 1:]
                    out.append((self.case(feat, pfeat, outs, msgs, var, 0, 0, 0), "split2"))
            # some 3-splits
            for _ in range(3):
                c1, c2 = rng.below(len(b)), rng.below(len(b))
                var = msgs[:i] + split_at(b, fds, [c1, c2]) + msgs[i + 1:]
                out.append((self.case(feat, pfeat, outs, msgs, var, 0, 0, 0), "split3"))
            # byte by byte (short messages), and every message split at the header boundary
            if len(b) <= 80:
                var = msgs[:i] + split_at(b, fds, list(range(1, len(b)))) + msgs[i + 1:]
                out.append((self.case(feat, pfeat, outs, msgs, var, 0, 0, 0), "bytewise"))
            var = []
            for (bb, ff) in msgs:
                var += split_at(bb, ff, [12])
            out.append((self.case(feat, pfeat, outs, msgs, var, 0, 0, 0), "hdr-body-all"))
            # truncation: the stream ends at offset o of message k
            k = rng.below(len(msgs))
            bk, fk = msgs[k]
            offs = sorted(set([0, 1, 11, 12, 13, len(bk) - 1] + [rng.below(len(bk))]))
            for o in offs:
                if o < 0 or o >= len(bk):
                    continue
                var = msgs[:k] + ([(bk[:o], fk)] if o > 0 else [])
                out.append((self.case(feat, pfeat, outs, msgs, var, 1, k, o), "truncate"))
        return out

    def nontrivial(self, args, obs):
        parts = split_top(obs)
        return len(parts) == 2 and "(VL [(VL [(VS" in parts[0]
