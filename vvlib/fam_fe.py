# family "fe": frontend operations against a scripted raw peer (serves C01 tx/rx, C02 local
# rejections, C03 result fidelity, C06 reply acceptance, C07 frontend gating).
from . import wire as W
from .core import VN, VS, VH, VL, split_top
from .engine import Family

REPLY = 5          # version 1 | REPLY
U64L = [0, 1, 2, 0xfff, 0x1000, 2**31, 2**32 - 1, 2**32, 2**63, 2**64 - 4096, 2**64 - 1]


def step(name, nums=(), data=b"", fds=(), regions=(), script=()):
    return VL([VS(name), VL([VN(x) for x in nums]), VH(data), VL([VN(f) for f in fds]),
               VL([VL([VN(x) for x in r]) for r in regions]),
               VL([VL([VH(b), VL([VN(f) for f in ff])]) for b, ff in script])])


def reply(code, body=b"", flags=REPLY):
    return W.hdr(code, flags, len(body)) + body


class St:
    """mirror of the frontend's negotiation state, only to generate plausible peer scripts"""

    def __init__(self, maxq):
        self.vf = self.avf = self.apf = 0
        self.maxq = maxq
        self.hf = 0
        self.fd = 2000

    def newfd(self):
        self.fd += 1
        return self.fd

    def expects_ack(self):
        return bool(self.apf & W.PF["REPLY_ACK"]) and bool(self.hf & 8)


OPS_ACK = ["set_owner", "reset_owner", "set_vring_num", "set_vring_addr", "set_vring_base", "set_vring_call", "set_vring_kick",
           "set_vring_err", "reset_device", "set_vring_enable", "set_config", "set_backend_request_fd", "set_inflight_fd",
           "add_mem_region", "remove_mem_region", "set_mem_table", "set_log_fd", "set_features", "set_protocol_features"]
OPS_REPLY = ["get_features", "get_protocol_features", "get_queue_num", "get_vring_base", "get_config", "get_shared_object",
             "get_inflight_fd", "get_max_mem_slots", "get_shmem_config", "set_device_state_fd", "check_device_state",
             "set_log_base"]
CODE = dict(get_features=1, set_features=2, set_owner=3, reset_owner=4, set_mem_table=5, set_log_base=6, set_log_fd=7,
            set_vring_num=8, set_vring_addr=9, set_vring_base=10, get_vring_base=11, set_vring_kick=12, set_vring_call=13,
            set_vring_err=14, get_protocol_features=15, set_protocol_features=16, get_queue_num=17, set_vring_enable=18,
            set_backend_request_fd=21, get_config=24, set_config=25, get_inflight_fd=31, set_inflight_fd=32, reset_device=34,
            get_max_mem_slots=36, add_mem_region=37, remove_mem_region=38, get_shared_object=41, set_device_state_fd=42,
            check_device_state=43, get_shmem_config=44)


class Fe(Family):
    name = "fe"
    shards = 16
    spec = True

    # ---- argument generators -------------------------------------------------
    def qidx(self, rng, st):
        if rng.chance(1, 5):
            return min(2**64 - 1, rng.choice([st.maxq, st.maxq + 1, 255, 256, 257, 65535, 2**32, 2**63]))
        return rng.below(max(1, min(st.maxq, 4)))

    def u64(self, rng):
        return rng.choice(U64L) if rng.chance(1, 2) else rng.next()

    def region(self, rng, st, bad=False):
        if bad:
            return [self.u64(rng), rng.choice([0, 1]), self.u64(rng), self.u64(rng), rng.choice([0, st.newfd()])]
        return [rng.below(1 << 30) << 12, rng.choice([0x1000, 0x200000, 2**32, 1]), rng.below(1 << 34) << 12,
                rng.below(8) << 12, st.newfd()]

    def args_for(self, rng, st, op):
        """-> (nums, data, fds, regions)"""
        if op in ("set_features", "set_protocol_features"):
            return [self.u64(rng) if rng.chance(1, 3) else (rng.next() & (W.PF_ALL | W.VF_PROTOCOL_FEATURES))], b"", [], []
        if op in ("set_vring_num", "set_vring_base"):
            return [self.qidx(rng, st), rng.choice([0, 1, 256, 1024, 65535, rng.below(65536)])], b"", [], []
        if op == "get_vring_base":
            return [self.qidx(rng, st)], b"", [], []
        if op == "set_vring_addr":
            fl = rng.choice([0, 0, 1, 1, 2, 3])
            return [self.qidx(rng, st), fl, self.u64(rng) & ~0xf, self.u64(rng) & ~3, self.u64(rng) & ~1, rng.below(2), self.u64(rng)], b"", [], []
        if op in ("set_vring_call", "set_vring_kick", "set_vring_err"):
            return [self.qidx(rng, st)], b"", [st.newfd()], []
        if op == "set_vring_enable":
            return [self.qidx(rng, st), rng.below(2)], b"", [], []
        if op == "get_config":
            off = rng.choice([0, 1, 0x100, 0xff0, 0xfff, 0x1000])
            size = rng.choice([1, 4, 8, 16, 0x100]) if rng.chance(4, 5) else rng.choice([0, 0x1000, 0x1001, 2**32 - 1])
            buflen = size if (size <= 4084 and rng.chance(5, 6)) else rng.choice([0, 1, 8, 4085])
            return [off, size, rng.choice([0, 1, 2, 3, 4])], bytes(rng.below(256) for _ in range(min(buflen, 32))) + bytes(max(0, buflen - 32)), [], []
        if op == "set_config":
            n = rng.choice([1, 4, 8, 0x100, 0, 4084, 4085, 4097])
            return [rng.choice([0, 0x100, 0xff8, 0xfff, 0x1000]), rng.choice([0, 1, 2, 3, 4])], bytes(rng.below(256) for _ in range(min(n, 32))) + bytes(max(0, n - 32)), [], []
        if op in ("set_backend_request_fd", "set_log_fd"):
            return [], b"", [st.newfd()], []
        if op == "get_shared_object":
            u = rng.choice([bytes(16), bytes([255] * 16), bytes(range(1, 17)), W.u64(rng.next()) + W.u64(rng.next())])
            return [], u, [], []
        if op in ("get_inflight_fd", "set_inflight_fd"):
            nums = [self.u64(rng), self.u64(rng), rng.choice([0, 1, 2, 65535]), rng.choice([0, 1, 256, 65535])]
            if rng.chance(3, 4):
                nums = [nums[0] | 1, nums[1], max(1, nums[2]), max(1, nums[3])]
            return nums, b"", ([rng.choice([0, st.newfd(), st.newfd()])] if op == "set_inflight_fd" else []), []
        if op in ("add_mem_region", "remove_mem_region"):
            r = self.region(rng, st, bad=rng.chance(1, 4))
            return r, b"", [], []
        if op == "set_mem_table":
            n = rng.choice([1, 2, 3, 8, 32]) if rng.chance(5, 6) else rng.choice([0, 33])
            regs = [self.region(rng, st, bad=rng.chance(1, 10)) for _ in range(n)]
            return [], b"", [], regs
        if op == "set_device_state_fd":
            return [rng.below(2), 0], b"", [st.newfd()], []
        if op == "set_log_base":
            has = rng.below(2)
            return [self.u64(rng), has, self.u64(rng) | 1, rng.choice([0, 0x1000])], b"", ([st.newfd()] if has else []), []
        return [], b"", [], []

    # ---- the conformant reply of an independent peer ---------------------------
    def good_reply(self, rng, st, op, nums, data):
        code = CODE[op]
        if op in OPS_ACK:
            return [(reply(code, W.u64(0 if rng.chance(3, 4) else rng.choice([1, 2**32, 2**63, 0xffffffff00000000, 2**64 - 22, 0x100]))), [])] if st.expects_ack() else []
        if op in ("get_features",):
            v = rng.choice([W.VF_PROTOCOL_FEATURES, W.VF_PROTOCOL_FEATURES | 0x3 | W.VF_LOG_ALL, 0, rng.next()])
            return [(reply(code, W.u64(v)), [])]
        if op == "get_protocol_features":
            v = rng.choice([W.PF_ALL, rng.next() & W.PF_ALL, rng.next(), 0])
            return [(reply(code, W.u64(v)), [])]
        if op == "get_queue_num":
            return [(reply(code, W.u64(rng.choice([0, 1, 2, 8, 0x8000, 0x8001, 2**64 - 1]))), [])]
        if op in ("get_max_mem_slots", "check_device_state"):
            return [(reply(code, W.u64(rng.choice([0, 0, 1, 509, 2**32, 2**63, 2**64 - 1]))), [])]
        if op == "get_vring_base":
            return [(reply(code, W.vring_state(nums[0] & 0xffffffff, rng.choice([0, 1, 65535, 2**32 - 1]))), [])]
        if op == "get_config":
            off, size = nums[0], nums[1]
            k = rng.below(8)
            if k == 0:
                return [(reply(code, W.config(off, 0, nums[2], b"")), [])]          # in-band failure
            if k == 1:
                return [(reply(code, W.config(off, max(0, size - 1), nums[2], bytes(max(0, size - 1) & 0xfff))), [])]
            if k == 2:
                return [(reply(code, W.config(off + 1, size, nums[2], bytes(size & 0xfff))), [])]
            payload = bytes((off + i) % 251 for i in range(size if size <= 4084 else 8))
            if k == 3 and len(payload) > 1:
                # body as requested, but fewer payload bytes than it announces (the header's size says so honestly)
                return [(reply(code, W.config(off, size, nums[2], payload[:rng.choice([1, len(payload) - 1, len(payload) // 2 or 1])])), [])]
            if k == 4 and size <= 4000:
                # ... or more
                return [(reply(code, W.config(off, size, nums[2], payload + b"\x55" * rng.choice([1, 4]))), [])]
            return [(reply(code, W.config(off, size, nums[2], payload)), [])]
        if op == "get_shared_object":
            return [(reply(code), [st.newfd()] if rng.chance(4, 5) else [])]
        if op == "get_inflight_fd":
            return [(reply(code, W.inflight(nums[0] + 1 & W.M64, nums[1], max(1, nums[2]), max(1, nums[3]))), [st.newfd()] if rng.chance(4, 5) else [])]
        if op == "get_shmem_config":
            return [(reply(code, W.le(2, 4) + W.le(0, 4) + W.u64(4096) + W.u64(8192) + bytes(254 * 8)), [])]
        if op == "set_device_state_fd":
            k = rng.below(4)
            if k == 0:
                return [(reply(code, W.u64(0x100)), [])]
            if k == 1:
                return [(reply(code, W.u64(0)), [st.newfd()])]
            if k == 2:
                return [(reply(code, W.u64(0x101)), [])]
            return [(reply(code, W.u64(rng.choice([0, 0x100, 1]))), [st.newfd()] if rng.chance(1, 2) else [])]
        if op == "set_log_base":
            if (st.apf & W.PF["LOG_SHMFD"]) and nums[1] == 1:
                return [(reply(code, W.log(nums[2], nums[3])), [])]
            return []
        return []

    def mutate(self, rng, st, script):
        """C06: field-by-field mutations of the conformant reply, plus garbage"""
        k = rng.below(14)
        if not script:
            if k < 7:
                return [(bytes(rng.below(256) for _ in range(1 + rng.below(40))), [])]
            return script
        b, fds = script[0]
        b = bytearray(b)
        if k == 0:
            b[0:4] = W.le(rng.choice([0, 1, 2, 45, 255, 2**32 - 1, (int.from_bytes(b[0:4], "little") + 1)]), 4)
        elif k == 1:
            b[4 + rng.below(4)] ^= 1 << rng.below(8)
        elif k == 2:
            b[4] = (b[4] & ~3) | rng.choice([0, 2, 3])
        elif k == 3:
            sz = int.from_bytes(b[8:12], "little")
            b[8:12] = W.le((sz + rng.choice([1, -1, 8, 4096])) & 0xffffffff, 4)
        elif k == 4 and len(b) > 12:
            b[12 + rng.below(len(b) - 12)] ^= 1 << rng.below(8)
        elif k == 5:
            fds = fds + [st.newfd() for _ in range(1 + rng.below(3))]
        elif k == 6:
            fds = []
        elif k == 7:
            b = b[:rng.below(len(b))]
        elif k == 8:
            b = b + bytes(rng.below(256) for _ in range(1 + rng.below(8)))
        elif k == 9:
            return [(bytes(rng.below(256) for _ in range(rng.below(40) + 1)), [])]
        elif k == 10:
            return []                       # the peer closes without answering
        elif k == 11 and len(b) > 12:
            cut = rng.choice([1, 11, 12, 13, len(b) - 1])
            return [(bytes(b[:cut]), fds), (bytes(b[cut:]), [])]
        elif k == 12:
            b[4] &= ~4                      # REPLY bit cleared
        else:
            b[4] |= 8                       # NEED_REPLY set on the reply
        return [(bytes(b), fds)]

    def one(self, rng, mutated):
        maxq = rng.choice([1, 2, 4, 256, 0x8000, 2**32, 2**64 - 1, 0])
        st = St(maxq)
        steps = []
        # header flags
        if rng.chance(2, 3):
            st.hf = rng.choice([8, 8, 8, 0, 4, 0xc, 0x10, 0xffffffff])
            steps.append(step("set_hdr_flags", [st.hf]))
        # negotiation prefix
        if rng.chance(4, 5):
            v = rng.choice([W.VF_PROTOCOL_FEATURES | 3, W.VF_PROTOCOL_FEATURES, 0, rng.next()])
            steps.append(step("get_features", script=[(reply(1, W.u64(v)), [])]))
            st.vf = v
            if rng.chance(3, 4):
                a = v if rng.chance(3, 4) else (v & ~W.VF_PROTOCOL_FEATURES)
                steps.append(step("set_features", [a], script=self.good_reply(rng, st, "set_features", [a], b"")))
                st.avf = a & st.vf
            if rng.chance(3, 4):
                pv = rng.choice([W.PF_ALL, rng.next() & W.PF_ALL])
                steps.append(step("get_protocol_features", script=[(reply(15, W.u64(pv)), [])]))
                a = rng.choice([W.PF_ALL, rng.next() & W.PF_ALL, pv])
                if st.vf & W.VF_PROTOCOL_FEATURES:
                    old = st.apf
                    st.apf = a
                    sc = self.good_reply(rng, st, "set_protocol_features", [a], b"")
                    steps.append(step("set_protocol_features", [a], script=sc))
                else:
                    steps.append(step("set_protocol_features", [a]))
        n = 1 + rng.below(6)
        for _ in range(n):
            op = rng.choice(OPS_ACK + OPS_REPLY)
            nums, data, fds, regions = self.args_for(rng, st, op)
            sc = self.good_reply(rng, st, op, nums, data)
            if mutated and rng.chance(2, 3):
                sc = self.mutate(rng, st, sc)
            steps.append(step(op, nums, data, fds, regions, sc))
            # keep the mirror state roughly in sync (only used to decide whether acks are scripted)
            if op == "set_protocol_features" and (st.vf & W.VF_PROTOCOL_FEATURES):
                st.apf = nums[0] & W.PF_ALL
            if op == "set_features":
                st.avf = nums[0] & st.vf
        return [VN(maxq), VL(steps)]

    def one_focused(self, rng):
        """a fully negotiated session, then requests with arguments the frontend accepts: every reply
        shape of good_reply/mutate actually reaches the reply parser"""
        maxq = rng.choice([2, 4, 256])
        st = St(maxq)
        steps = []
        if rng.chance(1, 2):
            st.hf = 8
            steps.append(step("set_hdr_flags", [8]))
        v = W.VF_PROTOCOL_FEATURES | 3
        steps.append(step("get_features", script=[(reply(1, W.u64(v)), [])]))
        st.vf = v
        steps.append(step("set_features", [v], script=self.good_reply(rng, st, "set_features", [v], b"")))
        st.avf = v
        steps.append(step("get_protocol_features", script=[(reply(15, W.u64(W.PF_ALL)), [])]))
        st.apf = W.PF_ALL
        steps.append(step("set_protocol_features", [W.PF_ALL], script=self.good_reply(rng, st, "set_protocol_features", [W.PF_ALL], b"")))
        for _ in range(1 + rng.below(3)):
            op = rng.choice(OPS_REPLY + ["get_config", "get_config"] + OPS_ACK[:10])
            nums, data, fds, regions = self.args_for(rng, st, op)
            if op == "get_config":
                size = rng.choice([2, 4, 8, 16, 0x100])
                off = rng.choice([0, 1, 0x100, 0x1000 - size])
                nums = [off, size, rng.choice([0, 1, 2, 3])]
                data = bytes(rng.below(256) for _ in range(size))
            sc = self.good_reply(rng, st, op, nums, data)
            if rng.chance(1, 3):
                sc = self.mutate(rng, st, sc)
            steps.append(step(op, nums, data, fds, regions, sc))
        return [VN(maxq), VL(steps)]

    def truncated(self, rng, op, cut_kind):
        """C08, receiving side of the frontend: a fully negotiated session, then one call whose otherwise conformant
        reply ends (the peer closes) at a characteristic offset inside the message"""
        maxq = rng.choice([2, 4, 256])
        st = St(maxq)
        st.hf = 8
        steps = [step("set_hdr_flags", [8])]
        v = W.VF_PROTOCOL_FEATURES | 3
        steps.append(step("get_features", script=[(reply(1, W.u64(v)), [])]))
        st.vf = v
        steps.append(step("set_features", [v], script=self.good_reply(rng, st, "set_features", [v], b"")))
        st.avf = v
        steps.append(step("get_protocol_features", script=[(reply(15, W.u64(W.PF_ALL)), [])]))
        st.apf = W.PF_ALL
        steps.append(step("set_protocol_features", [W.PF_ALL], script=self.good_reply(rng, st, "set_protocol_features", [W.PF_ALL], b"")))
        for _ in range(8):
            nums, data, fds, regions = self.args_for(rng, st, op)
            if op == "get_config":
                size = rng.choice([1, 2, 8, 16, 0x100])
                nums = [rng.choice([0, 1, 0x100, 0x1000 - size]), size, rng.choice([0, 1, 2, 3])]
                data = bytes(1 + rng.below(255) for _ in range(size))
            sc = self.good_reply(rng, st, op, nums, data)
            if sc:
                break
        if sc:
            b, rf = sc[0]
            n = len(b)
            cut = {0: 0, 1: 1, 2: 11, 3: 12, 4: 13, 5: n - 1, 6: 20, 7: 23, 8: 24, 9: 25}.get(cut_kind)
            if cut is None or cut >= n:
                cut = rng.below(n)
            sc = [(bytes(b[:cut]), rf)] if cut > 0 else []
        steps.append(step(op, nums, data, fds, regions, sc))
        return [VN(maxq), VL(steps)]

    def generate_truncated(self, rng, tier):
        out = []
        for _ in range(1 if tier == "quick" else 6):
            for op in OPS_REPLY + ["set_vring_num", "set_vring_base", "set_vring_enable", "set_config"]:
                for ck in range(11):
                    out.append((self.truncated(rng, op, ck), "truncated-reply"))
        return out

    def generate(self, rng, tier):
        out = self.generate_truncated(rng, tier)
        n1, n2 = (1500, 1500) if tier == "quick" else (12000, 12000)
        for _ in range(n1 // 3):
            out.append((self.one_focused(rng), "negotiated-session"))
        for _ in range(n1):
            out.append((self.one(rng, False), "conformant-peer"))
        for _ in range(n2):
            out.append((self.one(rng, True), "mutated-replies"))
        return out

    def nontrivial(self, args, obs):
        return '(VL [(VH "' in obs


class FeTrunc(Fe):
    """the receiving side of the frontend under a stream that ends inside a reply (C08)"""

    def generate(self, rng, tier):
        return self.generate_truncated(rng, tier)
