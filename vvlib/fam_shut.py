# family "shut": daemon shutdown / teardown scenarios on a real VhostUserDaemon (C16).
from .core import VN, VS, VL
from .engine import Family


def case(pos, k=0, shutdown=1, callers=1, repeats=1, release_first=0, threads=1, exits=1):
    return [VS(pos), VN(k), VN(shutdown), VN(callers), VN(repeats), VN(release_first), VN(threads), VN(exits)]


class Shut(Family):
    name = "shut"
    shards = 16
    spec = True

    def generate(self, rng, tier):
        out = []
        # every position x with / without a shutdown request x 1..3 callers, single and repeated requests
        for pos, ks in (("idle", [0, 1]), ("partial_hdr", [1, 5, 11]), ("header_only", [0, 3, 7]), ("in_handler", [0, 1]),
                        ("after_reply", [1, 2, 3]), ("peer_closed", [0, 1]), ("peer_closed_partial", [1, 5, 11, 12, 15, 19]),
                        ("invalid_request", [0, 1]), ("reply_to_closed_peer", [0]), ("peer_halfclose", [0, 1, 5, 11, 12, 15, 19]),
                        ("reply_blocked", [0, 1])):
            for k in ks:
                for callers, repeats in ((1, 1), (2, 1), (3, 2)):
                    for rf in ((0, 1) if pos == "in_handler" else (0,)):
                        out.append((case(pos, k, 1, callers, repeats, rf, 1 + (k + callers) % 2), "shutdown@" + pos))
                if pos not in ("idle", "partial_hdr", "header_only", "in_handler", "after_reply", "reply_blocked"):
                    out.append((case(pos, k, 0, 1, 1, 0, 1 + k % 2), "no-shutdown@" + pos))
        for pos, ks in (("serve_clean", [0, 1, 3]), ("serve_partial", [1, 5, 11]), ("serve_invalid", [0])):
            for k in ks:
                out.append((case(pos, k, 0, 1, 1, 0, 1 + k % 2), pos))
        n = 0 if tier == "quick" else 3
        base = list(out)
        for _ in range(n):                       # repetition varies the timing of the races
            out += base
        return out

    def signature(self, args, obs):
        return "shut:" + args[0]

    def nontrivial(self, args, obs):
        return "timeout" not in obs
