"""locate the step at which a family's spec predicate first turns false: python3 -m vvlib.specdebug <replay.json> [family]"""
import json, os, subprocess, sys
from .core import split_top, BUILD


def main():
    r = json.load(open(sys.argv[1]))
    fam = r.get("family") or (sys.argv[2] if len(sys.argv) > 2 else "dmn")
    case, impl = r["case"], r["implementation_observation"]
    parts = split_top(case)            # [(VS fam); cfg; steps]
    steps = split_top(parts[2]) if fam in ("dmn",) else None
    obs = split_top(impl)
    exe = os.path.join(BUILD, "ocaml", "vv_eval")
    lines = []
    for k in range(1, len(obs) + 1):
        o = "(VL [" + "; ".join(obs[:k]) + "])"
        lines.append(case.replace(f'(VS "{fam}")', f'(VS "{fam}-spec")', 1)[:-2] + "; " + o + "])")
    out = subprocess.run([exe], input="\n".join(lines) + "\n", capture_output=True, text=True).stdout.splitlines()
    print("cfg:", parts[1])
    for k, v in enumerate(out):
        mark = "" if v == '(VS "true")' else "   <== " + v
        print(k, steps[k] if steps and k < len(steps) else "", "->", obs[k][:300], mark)
        if mark:
            break


main()
