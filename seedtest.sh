#!/bin/sh
# usage: seedtest.sh <patch> <property>...   -- apply a seeded change to /repo, run the checks, undo it
patch="$1"; shift
git -C /repo status --short | grep -q . && { echo "/repo not clean"; exit 2; }
git -C /repo apply "$patch" || exit 2
for p in "$@"; do
  echo "== $p"; (cd /verif && ./check "$p" 2>&1 | grep -E "VIOLATION|KNOWN|held|Error" | head -5)
done
git -C /repo checkout -- .
# leave the regenerated tables in the state of the unchanged tree
(cd /verif && .build/translator/debug/rs2v /repo coq/Gen >/dev/null && python3 tools/uapi_gen.py coq/Gen >/dev/null)
git -C /repo status --short
