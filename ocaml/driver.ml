(* vv_eval: reads one case (a val in Gallina syntax) per line on stdin, prints
   the model's observation (a val) per line.  Hand-written; trusted base. *)
module M = Vv_model

(* ---- conversions between OCaml and the extracted inductives ---- *)
let rec pos_of_z (z : Z.t) : M.positive = (* z >= 1 *)
  if Z.equal z Z.one then M.XH
  else if Z.equal (Z.rem z (Z.of_int 2)) Z.zero then M.XO (pos_of_z (Z.div z (Z.of_int 2)))
  else M.XI (pos_of_z (Z.div z (Z.of_int 2)))
and n_of_z (z : Z.t) : M.n = if Z.equal z Z.zero then M.N0 else M.Npos (pos_of_z z)

let rec z_of_pos (p : M.positive) : Z.t =
  match p with
  | M.XH -> Z.one
  | M.XO q -> Z.mul (Z.of_int 2) (z_of_pos q)
  | M.XI q -> Z.add Z.one (Z.mul (Z.of_int 2) (z_of_pos q))
let z_of_n (x : M.n) : Z.t = match x with M.N0 -> Z.zero | M.Npos p -> z_of_pos p

let ascii_of_char (c : char) : M.ascii =
  let k = Char.code c in
  let b i = (k lsr i) land 1 = 1 in
  M.Ascii (b 0, b 1, b 2, b 3, b 4, b 5, b 6, b 7)
let char_of_ascii (a : M.ascii) : char =
  match a with
  | M.Ascii (b0, b1, b2, b3, b4, b5, b6, b7) ->
      let v b i = if b then 1 lsl i else 0 in
      Char.chr (v b0 0 + v b1 1 + v b2 2 + v b3 3 + v b4 4 + v b5 5 + v b6 6 + v b7 7)
let cstring_of (s : string) : M.string =
  let r = ref M.EmptyString in
  for i = String.length s - 1 downto 0 do
    r := M.String (ascii_of_char s.[i], !r)
  done;
  !r
let ostring_of (s : M.string) : string =
  let b = Buffer.create 64 in
  let rec go = function
    | M.EmptyString -> ()
    | M.String (a, r) -> Buffer.add_char b (char_of_ascii a); go r
  in
  go s; Buffer.contents b

(* ---- parser ---- *)
exception Parse of string
let parse (s : string) : M.val0 =
  let n = String.length s in
  let i = ref 0 in
  let skip () = while !i < n && (s.[!i] = ' ' || s.[!i] = '\t' || s.[!i] = '\r') do incr i done in
  let expect c = skip (); if !i < n && s.[!i] = c then incr i else raise (Parse (Printf.sprintf "expected %c at %d" c !i)) in
  let quoted () =
    expect '"';
    let st = !i in
    while !i < n && s.[!i] <> '"' do incr i done;
    let r = String.sub s st (!i - st) in
    expect '"'; r in
  let rec v () : M.val0 =
    expect '(';
    expect 'V';
    let k = s.[!i] in
    incr i;
    let r =
      match k with
      | 'N' ->
          skip ();
          let st = !i in
          while !i < n && s.[!i] >= '0' && s.[!i] <= '9' do incr i done;
          M.VN (n_of_z (Z.of_string (String.sub s st (!i - st))))
      | 'S' -> M.VS (cstring_of (quoted ()))
      | 'H' -> M.VH (cstring_of (quoted ()))
      | 'L' ->
          expect '[';
          skip ();
          let items = ref [] in
          if s.[!i] = ']' then incr i
          else begin
            let continue = ref true in
            while !continue do
              items := v () :: !items;
              skip ();
              if s.[!i] = ';' then incr i else (expect ']'; continue := false)
            done
          end;
          M.VL (List.rev !items)
      | _ -> raise (Parse "constructor")
    in
    expect ')'; r in
  v ()

let rec print (b : Buffer.t) (x : M.val0) : unit =
  match x with
  | M.VN k -> Buffer.add_string b "(VN "; Buffer.add_string b (Z.to_string (z_of_n k)); Buffer.add_char b ')'
  | M.VS s -> Buffer.add_string b "(VS \""; Buffer.add_string b (ostring_of s); Buffer.add_string b "\")"
  | M.VH s -> Buffer.add_string b "(VH \""; Buffer.add_string b (ostring_of s); Buffer.add_string b "\")"
  | M.VL l ->
      Buffer.add_string b "(VL [";
      List.iteri (fun i y -> if i > 0 then Buffer.add_string b "; "; print b y) l;
      Buffer.add_string b "])"

let () =
  try
    while true do
      let line = input_line stdin in
      if String.length line > 0 then begin
        let b = Buffer.create 256 in
        (try print b (M.run (parse line))
         with Parse m -> Buffer.add_string b ("(VL [(VS \"driver-parse-error\"); (VS \"" ^ m ^ "\")])")
            | Stack_overflow -> Buffer.add_string b "(VL [(VS \"driver-stack-overflow\")])");
        print_endline (Buffer.contents b)
      end
    done
  with End_of_file -> ()
