#!/usr/bin/env python3
# Regenerates MANIFEST.json from the table below (kept in one place so that it is always valid).
import json
CHECKS = {
 "C20": ("One iff-theorem per validator (Props/C20.v) between the validator body regenerated from message.rs/gpu_message.rs by rs2v and the arithmetic rule of Spec/Validity.v, for every bit pattern of every field; re-proved on every run against the current source. The translation is validated each run by running the real is_valid() on ~100k lattice/random byte images against the extracted model.",
         "Trusted: Coq kernel + vm_compute; rs2v translator; my transcription of the protocol rules in Spec/Validity.v; extraction (ExtrOcamlBasic) + OCaml driver; the Rust harness and the cfg(vhost_verif) accessor hooks. No axioms.",
         "Coq proof over translated source (rs2v) + differential correspondence", "DESIGN.md section 7 C20"),
 "C04": ("Theorems over the hand model of BackendReqHandler::handle_request (Props/C04.v): the reply-ack flag is a function of the negotiation state after ANY history; every request produces at most one message and it is a REPLY to that request with size = payload; the acknowledgement rule; plus exhaustive table theorems over the arm descriptors regenerated from the source (reply kind per request = specification, flag recomputed before every ack). The model is tied to the code on every run by ~4.4k request histories against the real server; Spec/BeSpec.v judges the implementation's own observation on clean histories.",
         "Partial: the theorems are about a hand-written model of the control flow (sizes, layouts, validators, codes, feature bits and the arm descriptors are regenerated from the source); the tie for the control flow is the sampled correspondence. Trusted: Coq kernel, rs2v, Spec/BeSpec.v transcription, extraction + driver, harness (raw peer, recvmsg shim), kernel socket semantics as modelled in Model/Transport.v.",
         "Coq proof (invariant + induction over histories; finite table proofs) + differential correspondence", "DESIGN.md section 7 C04"),
 "C07": ("Theorems (Props/C07.v): a handler invocation implies that the gate demanded by the REGENERATED arm table is open in the server state (all inputs); the regenerated backend and frontend gate tables equal the specification's and every gate check precedes every send/handler call (exhaustive finite proofs); acknowledged feature sets change only through SET_(PROTOCOL_)FEATURES; REPLY_ACK is always offered. Correspondence: family be incl. gated requests under random negotiation prefixes, judged by Spec/BeSpec.v.",
         "Partial: backend control flow is a hand model tied by correspondence; the frontend side is covered by the regenerated descriptor table (gate-before-send) - the two inline gates (ring enable, log base) are modelled, not table-checked. Trusted base as C04 plus Spec/Gates.v.",
         "Coq proof (all-inputs lemma over the model + finite table proofs over regenerated descriptors) + differential correspondence", "DESIGN.md section 7 C07"),
 "C09": ("Theorems (Props/C09.v): for one request and for any history, over any stream (valid, invalid, truncated, over-stuffed, descriptors on bodies or beyond the 32 limit), the descriptors of the consumed stream are a permutation of delivered ++ closed ++ still-queued; with distinct descriptors none is delivered twice or both delivered and closed. Correspondence: family be with distinct memfds identified by inode, delivered ids compared with the model and a leak count after teardown.",
         "Partial: ownership moves are hand-modelled (Model/Transport.v, Model/BeServer.v) and tied by correspondence; closing on drop (RAII) and the kernel's disposal of undelivered SCM_RIGHTS are assumed. Frontend-side receive paths and the daemon's vring setters are not yet in the ledger.",
         "Coq proof (multiset conservation by induction over the receive loop and over histories) + differential correspondence with fd-leak accounting", "DESIGN.md section 7 C09"),
 "C08": ("Theorems (Props/C08.v) over the hand model of the receive and send loops: the receive loop returns the first `need` bytes under every segmentation; a well-formed request is dispatched identically (state, calls, replies, stream rest) under every cut of its bytes incl. byte-by-byte; end-of-stream at a boundary gives Disconnected, inside the header PartialMessage, inside the body InvalidMessage, never a dispatch; the send loop emits a prefix of the message, each byte once and in order, descriptors with the first accepted write only, for every partial-write oracle; get_sub_iovs_offset points at the continuation byte. Correspondence: family seg forces every characteristic 2-split, 3-splits, byte-by-byte and truncations on the real server through an interposed recvmsg; family iovs runs the real get_sub_iovs_offset.",
         "Partial: the two loops are hand-modelled (Model/Transport.v) and tied by correspondence; 'never blocks' is the model's explicit end-of-stream, i.e. the kernel's 0-byte read is assumed. Frontend-side receive paths use the same Endpoint loops; their parsers are not yet in the model. Trusted base as C04.",
         "Coq proof (induction over segmentations / partial-write oracles) + forced-segmentation correspondence", "DESIGN.md section 7 C08"),
 "C01": ("Theorems (Props/C01.v): every regenerated constant table (three request spaces, header flags, virtio/protocol feature bits, flag sets, size limits) equals the transcribed specification table; every wire struct has the specified size and field offsets under the C/packed layout rules; the header constructor yields le32 code ++ le32 ((flags & 0xc) | 1) ++ le32 size for all u32 values (version 1, only REPLY/NEED_REPLY); little-endian round trips. Correspondence: family fe captures the exact bytes and SCM_RIGHTS of every frontend operation with a raw peer and Spec/FeSpec.v compares them with the independent specification encoding; family be does the same for backend replies/acks.",
         "Partial: per-operation transmit/receive theorems (model bytes = spec encoding for all field values) are not yet proved - that clause is decided by the correspondence against Spec/FeSpec.v only; proxy and GPU channels: constants, layouts and header only. Trusted: Coq kernel, rs2v, Spec/WireConsts.v + Spec/FeSpec.v transcription, extraction + driver, harness.",
         "Coq proof (finite table equalities over regenerated tables; all-values header lemma) + byte-exact differential correspondence against an independent spec encoder", "DESIGN.md section 7 C01"),
 "C02": ("Model-level theorems (Props/C02.v): locally rejected calls write nothing and keep the state; per request code exactly one handler of the specified name (regenerated arm table); every frontend operation sends exactly its own code (regenerated table); at most one reply per request. The end-to-end clause is decided by correspondence: family fe (request bytes = spec encoding of the caller's arguments, local rejections silent) and family be (handler invoked with the decoded arguments and the same descriptors, by inode).",
         "Partial: no composed session theorem yet (the executable composition frontend model o backend model exists - Model/Run.v run_sess - and is tied by family sess, real Frontend against real BackendReqHandler, judged by Spec/SessSpec.v: exactly one invocation with equal arguments and the same files); the all-inputs guarantee for the composition rests on that sampled tie plus the two byte-exact correspondences against the same specification encoding. Trusted base as C01/C04.",
         "Coq proof (model lemmas + finite table proofs) + differential correspondence on both endpoints against one spec encoding", "DESIGN.md section 7 C02"),
 "C03": ("Model-level theorems (Props/C03.v): a value returned by a reply-bearing call is decoded from a header-valid REPLY carrying the request's own code; an acknowledged operation succeeds only on a zero status; the backend's acknowledgement is 0 iff the handler succeeded. Correspondence: family fe with conformant and failure replies (non-zero status, zero-size config, missing file, 0x101 state) judged by Spec/FeSpec.v (returned values = decoded reply; failures are errors); the stream ends after the scripted reply, so a call that would wait shows up as an error instead of hanging.",
         "Partial: 'in bounded time' is a watchdog (0.7 s) in family sess (real Frontend against the real, still-serving BackendReqHandler; this is how F3 was found and is now checked) and 'the reply suffices for the call to return' in the session model; no liveness theorem. Trusted base as C01/C04.",
         "Coq proof (soundness lemmas of the receive paths) + differential correspondence", "DESIGN.md section 7 C03"),
 "C06": ("Theorems (Props/C06.v): for every byte stream and segmentation, recv_reply / wait_for_ack succeed only if the consumed bytes are a header-valid REPLY with the request's code, no descriptors, valid body (and zero status for acks). Correspondence: family fe replays, for every operation, the conformant reply mutated field by field (code, each flag bit, version, size, body, 0..3 descriptors, truncation, garbage, silence) against the real Frontend; Spec/FeSpec.v flags any accepted non-reply.",
         "Partial: the GPU proxy is not covered. The backend-to-frontend proxy (family proxy: acknowledgements mutated field by field) and the frontend's server for backend-initiated requests (family fsrv: arbitrary streams and descriptor counts; handler invoked only for well-formed requests with exactly the prescribed descriptor, never for a message marked REPLY) are covered by hand models + correspondence. The size field of fixed-size replies is not compared by the code; the property does not list it and the check does not demand it. Trusted base as C01.",
         "Coq proof (soundness of accept conditions over the hand model) + exhaustive-by-field mutation correspondence", "DESIGN.md section 7 C06"),
 "C18": ("Theorems (Props/C18.v) over the hand models of the Backend proxy and FrontendReqHandler: the acknowledgement carries the handler's value, resp. 2^64-errno, resp. 2^64-EINVAL; at most one handler invocation and one acknowledgement per request for every input; without REPLY_ACK nothing is written and nothing awaited; with REPLY_ACK the proxy call succeeds only on a genuine zero acknowledgement; shared-object / shmem requests are refused silently until enabled. Correspondence: family psess (real proxy against real server, recording handler: equal arguments, same file by device+inode, success iff handler returned 0), fsrv and proxy (raw peers).",
         "Partial: hand models tied by correspondence; errno i32::MIN (checked negation would overflow) is outside the generated errno classes; 'k-th acknowledgement answers k-th request' follows from at-most-one-ack-per-request plus in-order serving and is exercised by multi-request histories in fsrv, not stated as a separate theorem. The GPU proxy is not covered.",
         "Coq proof (model lemmas, all inputs) + differential correspondence incl. real-proxy/real-server sessions", "DESIGN.md section 7 C18"),
 "C11": ("Model-level theorems (Props/C11.v): after the registration update the ring's current kick descriptor is in its owner's epoll set exactly when the ring is ready and enabled (every state, ring, mask set); GET_VRING_BASE stops the ring, returns next-avail unchanged and drops kick and call. The life-cycle over whole histories (started by a kick descriptor, stopped by GET_VRING_BASE, enabled by SET_FEATURES without PROTOCOL_FEATURES or SET_VRING_ENABLE 1, disabled by SET_VRING_ENABLE 0 / RESET_DEVICE, kicks retained while inactive, delivered on activation, none while inactive) is decided by family dmn on a real daemon against Spec/DaemonSpec.v.",
         "Partial: the invariant is proved for the registration step, not yet as an inductive invariant over all control histories (that clause rests on the sampled correspondence: ~480 histories per run). Hand model of handler.rs/vring.rs/event_loop.rs; epoll, eventfd and lock semantics are assumptions.",
         "Coq proof (per-step registration lemma over the hand model) + history correspondence on a real daemon", "DESIGN.md section 7 C11"),
 "C17": ("Theorems (Props/C17.v), for all masks and queue numbers: the daemon's event id popcount(mask)-popcount(mask>>q) equals the number of lower-numbered queues in the mask; the owner is the first worker whose mask contains q (model = specification); the element at that id of the worker's ring slice is queue q; queue ids are below the worker's queue count, hence never the exit id or a listener id. Correspondence: family dmn routes every queue of every mask set of a table (plus random mask sets) on a real daemon and registers/fires custom listeners across the id range.",
         "The arithmetic is proved in full generality; the event-id expression and the slice construction are transcribed by hand from handler.rs (tied by correspondence), not regenerated. Listener acceptance (ids above num_queues and within 16 bits) is modelled and checked by correspondence.",
         "Coq proof (popcount/filter lemmas by induction, unbounded) + routing correspondence on a real daemon", "DESIGN.md section 7 C17"),
}
m = {
 "version": 1,
 "setup_cmd": "./setup.sh",
 "hooks": {
  "guard": "vhost_verif",
  "enable": "RUSTFLAGS='--cfg vhost_verif' (set in /verif/harness/.cargo/config.toml); exposes vhost::vhost_user::verif_hooks",
  "baseline_off_cmd": "cd /repo && cargo test --workspace --no-fail-fast --offline",
  "source_commits": ["2b1679a"],
  "add_only": True,
 },
 "engines": [{"name": "coq-proof+correspondence", "path": "check", "serves_properties": sorted(CHECKS),
              "kind_free_text": "Coq 8.16 theorems over definitions regenerated from /repo by the translator rs2v and over hand models, plus differential correspondence (real crates vs extracted model vs executable spec)"}],
 "checks": [],
 "notes": "see DESIGN.md; known_findings.json lists genuine defects (fixed: F1, F2, F3, F4, F5, F8, F10, F11)",
 "not_applicable": [],
}
for pid in sorted(CHECKS):
    text, note, tech, ref = CHECKS[pid]
    m["checks"].append({
        "property_id": pid,
        "quick_cmd": f"./check {pid} --tier quick",
        "thorough_cmd": f"./check {pid} --tier thorough",
        "evidence_file": f"/verif/evidence/{pid}.json",
        "replay_cmd_template": f"./check {pid} --replay {{path}}",
        "engine": "coq-proof+correspondence",
        "level_claimed": {"category": "proof", "text": text, "design_ref": ref},
        "level_note": note,
        "technique": tech,
    })
for i in range(1, 21):
    pid = f"C{i:02d}"
    if pid not in CHECKS:
        m["not_applicable"].append({"property_id": pid, "reason": "check not built yet in this revision (work in progress; DESIGN.md section 7 describes the planned theorem and correspondence family)"})
json.dump(m, open("MANIFEST.json", "w"), indent=1)
print("manifest:", len(m["checks"]), "checks")
