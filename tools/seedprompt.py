#!/usr/bin/env python3
"""seedprompt.py <property-id> <worktree> [avoid text]  -- the brief handed to a fresh seeding sub-agent
(the property text and its own worktree, nothing from /verif)"""
import json, sys
pid, wt = sys.argv[1], sys.argv[2]
avoid = sys.argv[3] if len(sys.argv) > 3 else ""
props = {json.loads(l)["id"]: json.loads(l) for l in open("/verif/properties.jsonl") if l.strip()}
p = props[pid]
title = p.get("title") or p.get("name") or ""
text = p.get("statement") or p.get("description") or p.get("text") or ""
q = p.get("quantifier") or ""
quant = q.get("text", "") if isinstance(q, dict) else q
print(f"""You are testing a verification suite for the Rust project rust-vmm/vhost (vhost-user protocol library + backend daemon framework). Your job: produce ONE realistic code change (a "seeded defect") that BREAKS the semantic property below while the project still compiles and its existing test-suite still passes.

Your private git worktree of the project is at {wt} (a `git worktree` of /repo at HEAD). Work ONLY inside {wt}. Do NOT read or touch /verif, and do NOT modify /repo itself. Everything is offline: use `cargo ... --offline` and set CARGO_TARGET_DIR={wt}/target for every cargo command (e.g. `cd {wt} && CARGO_TARGET_DIR={wt}/target cargo test --workspace --offline`). Do not edit or delete existing tests. NEVER use `git stash` (the stash is shared between worktrees); to flip between the changed and the original code use `git diff > /tmp/x.diff` and `git apply -R` / `git apply`.

PROPERTY {pid}: {title}
{text}
Quantified over: {quant}

Requirements for the change:
1. It must violate the property above in the library code (crates `vhost` and/or `vhost-user-backend`), not in tests.
2. It must still compile, and the full existing test-suite (`cargo test --workspace --offline`) must still pass with it (105 tests).
3. It should be subtle and realistic - the kind of slip a maintainer could make in a refactor: it should need something SPECIFIC to manifest (an unusual input value or boundary, a particular multi-step sequence of operations, a fault/error path, a particular interleaving, or two cooperating sites that each look fine alone), NOT something that ordinary use would expose at once. Do not just delete a whole feature.{(" " + avoid) if avoid else ""}
4. Provide a demonstration: a small standalone Rust test file (put it at {wt}/vhost/tests/seed_demo.rs or {wt}/vhost-user-backend/tests/seed_demo.rs as an integration test, using only public APIs; features needed can be enabled on the command line, e.g. `cargo test -p vhost --features vhost-user-frontend,vhost-user-backend --test seed_demo --offline`) that FAILS with your change applied and PASSES on the original code. Verify both yourself.

Deliverables - write these files into {wt}/SEED/ :
- patch.diff : `git diff` of the library change ONLY (not the demo test), relative to the worktree root, so that `git apply patch.diff` in a clean checkout reproduces it.
- demo_cmd.txt with the exact cargo command line that runs the demonstration (one line, starting with `cd {wt} && `).
- meta.json : {{"property": "{pid}", "summary": "<one paragraph: what was changed and why it breaks the property>", "needs_to_manifest": "<what specific input/sequence/timing is needed>", "verified": "<what you ran and what you observed, with and without the change>"}}

When done, leave the worktree with the library change applied and the demo test present, and reply with a short summary (what you changed, where, how it manifests). If after a serious effort you cannot find a change that keeps all 105 existing tests passing, say so and explain what you tried.""")
