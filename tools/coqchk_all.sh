#!/bin/sh
# Re-check every compiled Props module (and everything it depends on) with the independent checker coqchk and list the
# axioms it finds.  Slow (minutes); not part of the per-property checks.  Output: coqchk_report.txt
cd "$(dirname "$0")/../coq" || exit 2
out=../coqchk_report.txt
: > "$out"
for m in C01 C02 C03 C04 C05 C06 C07 C08 C09 C10 C11 C12 C13 C14 C15 C16 C17 C18 C19 C20; do
  echo "== VV.Props.$m" >> "$out"
  timeout 1800 coqchk -silent -o -Q . VV VV.Props.$m >> "$out" 2>&1
  echo "exit=$?" >> "$out"
done
grep -c "exit=0" "$out"
