#!/bin/sh
# usage: seedverify.sh <worktree>  -- confirm a seeded change: demo fails with it, passes without, suite passes with it
wt="$1"; cd "$wt" || exit 2
export CARGO_TARGET_DIR="$wt/target" CARGO_NET_OFFLINE=true
cmd=$(cat SEED/demo_cmd.txt | sed 's/^cd [^&]*&& *//' | tail -1)
demo=$(ls vhost/tests/seed_demo.rs vhost-user-backend/tests/seed_demo.rs 2>/dev/null | head -1)
echo "## $wt demo=$demo cmd=$cmd"
git apply -R --check SEED/patch.diff 2>/dev/null || { echo "patch not applied; applying"; git apply SEED/patch.diff || exit 2; }
sh -c "$cmd" >/tmp/sv.$$ 2>&1; r1=$?; echo "with change: demo exit=$r1 (expect !=0)"; grep -E "^test result|panicked" /tmp/sv.$$ | head -3
mv "$demo" /tmp/seed_demo.$$.rs
cargo test --workspace --offline >/tmp/sv.$$ 2>&1; r2=$?; echo "with change: suite exit=$r2 (expect 0)"; grep -E "^test result" /tmp/sv.$$ | head -5
mv /tmp/seed_demo.$$.rs "$demo"
git apply -R SEED/patch.diff
sh -c "$cmd" >/tmp/sv.$$ 2>&1; r3=$?; echo "without change: demo exit=$r3 (expect 0)"; grep -E "^test result" /tmp/sv.$$ | head -3
git apply SEED/patch.diff
rm -f /tmp/sv.$$
[ $r1 -ne 0 ] && [ $r2 -eq 0 ] && [ $r3 -eq 0 ] && echo "CONFIRMED $wt" || echo "NOT-CONFIRMED $wt"
