// Ring-configuration validity of the kernel backends (C19), regenerated: the size test of
// VhostKernBackend::is_valid (vhost_kern/mod.rs) and of VhostKernVdpa's override (vhost_kern/vdpa.rs), the three ring
// sizes, and VringConfigData::is_log_addr_valid / get_log_addr (backend.rs).  The Option<u64> log address is the pair
// (log_addr_is_some : bool, log_addr_value : N).
use quote::ToTokens;
use syn::{BinOp, Expr, Stmt};

fn die(m: &str) -> ! {
    // caught in main: only the Gen file of this part of the source is replaced by a rejection marker
    panic!("rs2v(kvalid): {}", m)
}
fn toks<T: ToTokens>(t: &T) -> String {
    t.to_token_stream().to_string()
}

fn g(e: &Expr) -> String {
    match e {
        Expr::Paren(p) => g(&p.expr),
        Expr::Group(x) => g(&x.expr),
        Expr::Path(p) if p.path.segments.len() == 1 => p.path.segments[0].ident.to_string(),
        Expr::Lit(l) => match &l.lit {
            syn::Lit::Int(i) => i.base10_parse::<u128>().map(|v| v.to_string()).unwrap_or_else(|_| die("integer literal")),
            _ => die(&format!("literal {}", toks(e))),
        },
        Expr::Cast(c) => g(&c.expr),
        Expr::Field(f) if toks(&f.base) == "config_data" || toks(&f.base) == "self" => toks(&f.member),
        Expr::Call(c) if toks(&c.func).replace(' ', "") == "u64::from" && c.args.len() == 1 => g(&c.args[0]),
        Expr::MethodCall(m) if m.args.is_empty() => {
            let r = g(&m.receiver);
            match m.method.to_string().as_str() {
                "is_none" => format!("(negb {}_is_some)", r),
                "is_some" => format!("{}_is_some", r),
                "unwrap" => format!("{}_value", r),
                other => die(&format!("method {} in {}", other, toks(e))),
            }
        }
        Expr::Binary(b) => {
            let (l, r) = (g(&b.left), g(&b.right));
            match b.op {
                BinOp::Add(_) => format!("(N.add {} {})", l, r),
                BinOp::Sub(_) => format!("(N.sub {} {})", l, r),
                BinOp::Mul(_) => format!("(N.mul {} {})", l, r),
                BinOp::BitAnd(_) => format!("(N.land {} {})", l, r),
                BinOp::Eq(_) => format!("(N.eqb {} {})", l, r),
                BinOp::Ne(_) => format!("(negb (N.eqb {} {}))", l, r),
                BinOp::Gt(_) => format!("(N.ltb {} {})", r, l),
                BinOp::Ge(_) => format!("(N.leb {} {})", r, l),
                BinOp::Lt(_) => format!("(N.ltb {} {})", l, r),
                BinOp::Le(_) => format!("(N.leb {} {})", l, r),
                BinOp::Or(_) => format!("(orb {} {})", l, r),
                BinOp::And(_) => format!("(andb {} {})", l, r),
                _ => die(&format!("operator in {}", toks(e))),
            }
        }
        _ => die(&format!("expression outside the subset: {}", toks(e))),
    }
}

fn parse(repo: &str, rel: &str) -> syn::File {
    let path = format!("{}/{}", repo, rel);
    let src = std::fs::read_to_string(&path).unwrap_or_else(|_| die(&format!("cannot read {}", path)));
    syn::parse_file(&src).unwrap_or_else(|e| die(&format!("parse {}: {}", path, e)))
}

fn block_of<'a>(file: &'a syn::File, owner: &str, name: &str) -> &'a syn::Block {
    for it in &file.items {
        match it {
            syn::Item::Trait(t) if t.ident == owner => {
                for ti in &t.items {
                    if let syn::TraitItem::Fn(f) = ti {
                        if f.sig.ident == name {
                            return f.default.as_ref().unwrap_or_else(|| die("no default body"));
                        }
                    }
                }
            }
            syn::Item::Impl(im) => {
                let ty = toks(&im.self_ty);
                let tr = im.trait_.as_ref().map(|(_, p, _)| p.segments.last().unwrap().ident.to_string()).unwrap_or_default();
                if ty.starts_with(owner) || tr == owner {
                    for ii in &im.items {
                        if let syn::ImplItem::Fn(f) = ii {
                            if f.sig.ident == name && (ty.starts_with(owner) || ty.starts_with("VhostKernVdpa")) {
                                return &f.block;
                            }
                        }
                    }
                }
            }
            _ => {}
        }
    }
    die(&format!("{}::{} not found", owner, name))
}

fn returns_false(b: &syn::Block) -> bool {
    toks(b).replace(' ', "") == "{returnfalse;}"
}

/// (definitions, shape) of an is_valid body: leading `let queue_size = ..`, `if C { return false }`, further lets,
/// address checks kept as strings, final expression kept as a string
fn is_valid(block: &syn::Block, pre: &str) -> String {
    let mut s = String::new();
    let mut shape: Vec<String> = vec![];
    let mut first_if = true;
    for st in &block.stmts {
        match st {
            Stmt::Local(l) => {
                let name = toks(&l.pat);
                let init = &l.init.as_ref().unwrap_or_else(|| die("binding without value")).expr;
                let t = toks(init);
                if t.contains("self . mem ()") {
                    shape.push(format!("let {} = {}", name, t));
                } else if name == "queue_size" {
                    if t != "config_data . queue_size" {
                        die("queue_size is not config_data.queue_size");
                    }
                } else {
                    s.push_str(&format!("Definition {}_{} (queue_size : N) : N := {}.\n", pre, name, g(init)));
                }
            }
            Stmt::Expr(Expr::If(i), _) if i.else_branch.is_none() && returns_false(&i.then_branch) => {
                if first_if {
                    s.push_str(&format!("Definition {}_size_bad (queue_size queue_max_size : N) : bool := {}.\n", pre, g(&i.cond)));
                    first_if = false;
                } else {
                    shape.push(format!("if {} return false", toks(&i.cond)));
                }
            }
            Stmt::Expr(e, None) => shape.push(format!("result {}", toks(e))),
            other => die(&format!("is_valid: unexpected statement {}", toks(other))),
        }
    }
    s.push_str(&format!(
        "Definition {}_shape : list string :=\n  [{}].\n",
        pre,
        shape.iter().map(|x| format!("\"{}\"", x.replace('"', "'"))).collect::<Vec<_>>().join(";\n   ")
    ));
    s
}

pub fn emit(repo: &str) -> String {
    let mut s = String::from("(* GENERATED by rs2v (kvalid.rs) from vhost/src/vhost_kern/{mod,vdpa}.rs and vhost/src/backend.rs - do not edit. *)\nFrom Coq Require Import List String NArith Bool.\nImport ListNotations.\nOpen Scope string_scope.\nOpen Scope N_scope.\n\n");
    let m = parse(repo, "vhost/src/vhost_kern/mod.rs");
    s.push_str("(* VhostKernBackend::is_valid (vhost-net, vhost-vsock) *)\n");
    s.push_str(&is_valid(block_of(&m, "VhostKernBackend", "is_valid"), "kv"));
    let v = parse(repo, "vhost/src/vhost_kern/vdpa.rs");
    s.push_str("\n(* VhostKernVdpa's is_valid *)\n");
    s.push_str(&is_valid(block_of(&v, "VhostKernBackend", "is_valid"), "kvd"));
    let b = parse(repo, "vhost/src/backend.rs");
    // is_log_addr_valid: `if C { return false; } true`
    let blk = block_of(&b, "VringConfigData", "is_log_addr_valid");
    match blk.stmts.as_slice() {
        [Stmt::Expr(Expr::If(i), _), Stmt::Expr(last, None)] if i.else_branch.is_none() && returns_false(&i.then_branch) && toks(last) == "true" => {
            s.push_str(&format!("\n(* VringConfigData::is_log_addr_valid *)\nDefinition kv_log_invalid (flags : N) (log_addr_is_some : bool) : bool := {}.\n", g(&i.cond)));
        }
        _ => die("is_log_addr_valid: unexpected shape"),
    }
    // get_log_addr: `if C { self.log_addr.unwrap() } else { 0 }`
    let blk = block_of(&b, "VringConfigData", "get_log_addr");
    match blk.stmts.as_slice() {
        [Stmt::Expr(Expr::If(i), None)] => {
            let then_v = match i.then_branch.stmts.as_slice() {
                [Stmt::Expr(e, None)] => g(e),
                _ => die("get_log_addr: then branch"),
            };
            let else_v = match i.else_branch.as_ref().map(|(_, e)| &**e) {
                Some(Expr::Block(bk)) => match bk.block.stmts.as_slice() {
                    [Stmt::Expr(e, None)] => g(e),
                    _ => die("get_log_addr: else branch"),
                },
                _ => die("get_log_addr: no else"),
            };
            s.push_str(&format!(
                "(* VringConfigData::get_log_addr *)\nDefinition kv_log_addr (flags : N) (log_addr_is_some : bool) (log_addr_value : N) : N := if {} then {} else {}.\n",
                g(&i.cond),
                then_v,
                else_v
            ));
        }
        _ => die("get_log_addr: unexpected shape"),
    }
    s
}
