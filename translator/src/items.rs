// Item collection: parse the source files, evaluate cfg attributes against the
// feature set the harness builds with, and index enums (enum_value!), bitflags!,
// consts, structs and functions.
use std::collections::BTreeMap;
use syn::parse::{Parse, ParseStream};
use syn::punctuated::Punctuated;
use syn::{Attribute, Expr, Ident, Token, Type, Visibility};

pub const FEATURES: &[&str] = &[
    "vhost-user",
    "vhost-user-frontend",
    "vhost-user-backend",
    "vhost-kern",
    "vhost-vdpa",
    "vhost-net",
    "vhost-vsock",
];

#[derive(Clone, Debug)]
pub struct EnumDef {
    pub name: String,
    pub ty: String,
    pub variants: Vec<(String, Expr)>,
    pub file: String,
}
#[derive(Clone, Debug)]
pub struct FlagsDef {
    pub name: String,
    pub ty: String,
    pub consts: Vec<(String, Expr)>,
    pub file: String,
}
#[derive(Clone, Debug)]
pub struct ConstDef {
    pub name: String,
    pub ty: Type,
    pub expr: Expr,
    pub file: String,
}
#[derive(Clone, Debug)]
pub struct StructDef {
    pub name: String,
    pub packed: bool,
    pub repr_c: bool,
    pub transparent: bool,
    pub generics: Vec<String>,
    pub fields: Vec<(String, Type)>,
    pub file: String,
    pub is_union: bool,
}
#[derive(Clone, Debug)]
pub struct FnDef {
    pub self_ty: Option<String>,
    pub trait_name: Option<String>,
    pub impl_generics: Vec<String>,
    pub item: syn::ImplItemFn,
    pub file: String,
}
#[derive(Clone, Debug)]
pub struct FreeFn {
    pub item: syn::ItemFn,
    pub file: String,
}
#[derive(Clone, Debug)]
pub struct TraitDef {
    pub name: String,
    pub item: syn::ItemTrait,
    pub file: String,
}
#[derive(Clone, Debug)]
pub struct ImplDef {
    pub self_ty: String,
    pub trait_name: Option<String>,
    pub generics: Vec<String>,
    pub item: syn::ItemImpl,
    pub file: String,
}

#[derive(Default)]
pub struct Items {
    pub enums: BTreeMap<String, EnumDef>,
    pub flags: BTreeMap<String, FlagsDef>,
    pub consts: Vec<ConstDef>,
    pub structs: BTreeMap<String, StructDef>,
    pub fns: Vec<FnDef>,
    pub free_fns: Vec<FreeFn>,
    pub traits: BTreeMap<String, TraitDef>,
    pub impls: Vec<ImplDef>,
    pub ioctls: Vec<IoctlDef>,
    pub order: Vec<(String, String)>, // (kind, name) in source order
}

#[derive(Clone, Debug)]
pub struct IoctlDef {
    pub mac: String,
    pub name: String,
    pub ty: Expr,
    pub nr: Expr,
    pub arg: Option<Type>,
    pub file: String,
}

struct EnumValueMacro {
    name: Ident,
    ty: Ident,
    variants: Vec<(Ident, Expr)>,
}
impl Parse for EnumValueMacro {
    fn parse(input: ParseStream) -> syn::Result<Self> {
        let _attrs = input.call(Attribute::parse_outer)?;
        let _vis: Visibility = input.parse()?;
        let _e: Token![enum] = input.parse()?;
        let name: Ident = input.parse()?;
        let _c: Token![:] = input.parse()?;
        let ty: Ident = input.parse()?;
        let content;
        syn::braced!(content in input);
        let mut variants = vec![];
        while !content.is_empty() {
            let _a = content.call(Attribute::parse_outer)?;
            let v: Ident = content.parse()?;
            let _eq: Token![=] = content.parse()?;
            let e: Expr = content.parse()?;
            let _comma: Option<Token![,]> = content.parse()?;
            variants.push((v, e));
        }
        Ok(EnumValueMacro { name, ty, variants })
    }
}

struct BitflagsMacro {
    defs: Vec<(Ident, Ident, Vec<(Ident, Expr)>)>,
}
impl Parse for BitflagsMacro {
    fn parse(input: ParseStream) -> syn::Result<Self> {
        let mut defs = vec![];
        while !input.is_empty() {
            let _attrs = input.call(Attribute::parse_outer)?;
            let _vis: Visibility = input.parse()?;
            let _s: Token![struct] = input.parse()?;
            let name: Ident = input.parse()?;
            let _c: Token![:] = input.parse()?;
            let ty: Ident = input.parse()?;
            let content;
            syn::braced!(content in input);
            let mut consts = vec![];
            while !content.is_empty() {
                let _a = content.call(Attribute::parse_outer)?;
                let _k: Token![const] = content.parse()?;
                let v: Ident = content.parse()?;
                let _eq: Token![=] = content.parse()?;
                let e: Expr = content.parse()?;
                let _semi: Token![;] = content.parse()?;
                consts.push((v, e));
            }
            defs.push((name, ty, consts));
        }
        Ok(BitflagsMacro { defs })
    }
}

struct IoctlMacro {
    name: Ident,
    args: Vec<Expr>,
    ty: Option<Type>,
}
impl Parse for IoctlMacro {
    fn parse(input: ParseStream) -> syn::Result<Self> {
        // ioctl_iow_nr!(NAME, TY, NR, ArgType)  /  ioctl_io_nr!(NAME, TY, NR)
        let name: Ident = input.parse()?;
        let _c: Token![,] = input.parse()?;
        let a: Expr = input.parse()?;
        let _c: Token![,] = input.parse()?;
        let b: Expr = input.parse()?;
        let mut ty = None;
        if input.peek(Token![,]) {
            let _c: Token![,] = input.parse()?;
            if !input.is_empty() {
                ty = Some(input.parse::<Type>()?);
            }
        }
        Ok(IoctlMacro { name, args: vec![a, b], ty })
    }
}

// ---- cfg evaluation ----
fn eval_cfg_meta(m: &syn::Meta) -> Option<bool> {
    match m {
        syn::Meta::Path(p) => {
            if p.is_ident("test") || p.is_ident("vhost_verif") {
                // hooks only wrap existing functions for the harness; they are not modelled
                Some(false)
            } else if p.is_ident("unix") {
                Some(true)
            } else {
                None
            }
        }
        syn::Meta::NameValue(nv) => {
            if nv.path.is_ident("feature") {
                if let Expr::Lit(syn::ExprLit { lit: syn::Lit::Str(s), .. }) = &nv.value {
                    return Some(FEATURES.contains(&s.value().as_str()));
                }
                None
            } else if nv.path.is_ident("target_arch") {
                if let Expr::Lit(syn::ExprLit { lit: syn::Lit::Str(s), .. }) = &nv.value {
                    return Some(s.value() == "x86_64");
                }
                None
            } else if nv.path.is_ident("target_env") {
                if let Expr::Lit(syn::ExprLit { lit: syn::Lit::Str(s), .. }) = &nv.value {
                    return Some(s.value() == "gnu");
                }
                None
            } else {
                None
            }
        }
        syn::Meta::List(l) => {
            let inner: Punctuated<syn::Meta, Token![,]> =
                l.parse_args_with(Punctuated::parse_terminated).ok()?;
            if l.path.is_ident("not") {
                let v = eval_cfg_meta(inner.first()?)?;
                Some(!v)
            } else if l.path.is_ident("all") {
                let mut r = true;
                for m in inner.iter() {
                    r &= eval_cfg_meta(m)?;
                }
                Some(r)
            } else if l.path.is_ident("any") {
                let mut r = false;
                for m in inner.iter() {
                    r |= eval_cfg_meta(m)?;
                }
                Some(r)
            } else {
                None
            }
        }
    }
}

/// true when the item is active under the modelled configuration
pub fn cfg_active(attrs: &[Attribute]) -> bool {
    for a in attrs {
        if a.path().is_ident("cfg") {
            if let syn::Meta::List(l) = &a.meta {
                if let Ok(m) = l.parse_args::<syn::Meta>() {
                    match eval_cfg_meta(&m) {
                        Some(true) => {}
                        Some(false) => return false,
                        None => panic!("rs2v: cannot evaluate cfg {}", quote::quote!(#a)),
                    }
                }
            }
        }
    }
    true
}

fn repr_of(attrs: &[Attribute]) -> (bool, bool, bool) {
    let mut packed = false;
    let mut c = false;
    let mut transparent = false;
    for a in attrs {
        if a.path().is_ident("repr") {
            let _ = a.parse_nested_meta(|m| {
                if m.path.is_ident("packed") {
                    packed = true;
                } else if m.path.is_ident("C") {
                    c = true;
                } else if m.path.is_ident("transparent") {
                    transparent = true;
                }
                Ok(())
            });
        }
    }
    (packed, c, transparent)
}

pub fn type_name(t: &Type) -> String {
    match t {
        Type::Path(p) => p.path.segments.last().map(|s| s.ident.to_string()).unwrap_or_default(),
        Type::Reference(r) => type_name(&r.elem),
        Type::Paren(p) => type_name(&p.elem),
        _ => String::new(),
    }
}

impl Items {
    pub fn add_file(&mut self, path: &str, label: &str) {
        let src = std::fs::read_to_string(path).unwrap_or_else(|e| panic!("rs2v: read {}: {}", path, e));
        let file = syn::parse_file(&src).unwrap_or_else(|e| panic!("rs2v: parse {}: {}", path, e));
        self.add_items(&file.items, label);
    }

    fn add_items(&mut self, items: &[syn::Item], label: &str) {
        for it in items {
            match it {
                syn::Item::Macro(m) => {
                    if !cfg_active(&m.attrs) {
                        continue;
                    }
                    let mname = m.mac.path.segments.last().unwrap().ident.to_string();
                    if mname == "enum_value" {
                        let ev: EnumValueMacro = m.mac.parse_body().expect("enum_value! body");
                        let d = EnumDef {
                            name: ev.name.to_string(),
                            ty: ev.ty.to_string(),
                            variants: ev.variants.into_iter().map(|(i, e)| (i.to_string(), e)).collect(),
                            file: label.to_string(),
                        };
                        self.order.push(("enum".into(), d.name.clone()));
                        self.enums.insert(d.name.clone(), d);
                    } else if mname == "bitflags" {
                        let bf: BitflagsMacro = m.mac.parse_body().expect("bitflags! body");
                        for (n, t, cs) in bf.defs {
                            let d = FlagsDef {
                                name: n.to_string(),
                                ty: t.to_string(),
                                consts: cs.into_iter().map(|(i, e)| (i.to_string(), e)).collect(),
                                file: label.to_string(),
                            };
                            self.order.push(("flags".into(), d.name.clone()));
                            self.flags.insert(d.name.clone(), d);
                        }
                    } else if mname.starts_with("ioctl_io") && mname.ends_with("_nr") {
                        let im: IoctlMacro = m.mac.parse_body().expect("ioctl macro body");
                        self.ioctls.push(IoctlDef {
                            mac: mname,
                            name: im.name.to_string(),
                            ty: im.args[0].clone(),
                            nr: im.args[1].clone(),
                            arg: im.ty,
                            file: label.to_string(),
                        });
                    }
                }
                syn::Item::Const(c) => {
                    if !cfg_active(&c.attrs) {
                        continue;
                    }
                    self.order.push(("const".into(), c.ident.to_string()));
                    self.consts.push(ConstDef {
                        name: c.ident.to_string(),
                        ty: (*c.ty).clone(),
                        expr: (*c.expr).clone(),
                        file: label.to_string(),
                    });
                }
                syn::Item::Struct(s) => {
                    if !cfg_active(&s.attrs) {
                        continue;
                    }
                    let (packed, repr_c, transparent) = repr_of(&s.attrs);
                    let mut fields = vec![];
                    for (i, f) in s.fields.iter().enumerate() {
                        if !cfg_active(&f.attrs) {
                            continue;
                        }
                        let n = f.ident.as_ref().map(|i| i.to_string()).unwrap_or(format!("_{}", i));
                        fields.push((n, f.ty.clone()));
                    }
                    let d = StructDef {
                        name: s.ident.to_string(),
                        packed,
                        repr_c,
                        transparent,
                        generics: s.generics.type_params().map(|p| p.ident.to_string()).collect(),
                        fields,
                        file: label.to_string(),
                        is_union: false,
                    };
                    self.order.push(("struct".into(), d.name.clone()));
                    self.structs.insert(d.name.clone(), d);
                }
                syn::Item::Union(u) => {
                    if !cfg_active(&u.attrs) {
                        continue;
                    }
                    let (packed, repr_c, transparent) = repr_of(&u.attrs);
                    let fields = u
                        .fields
                        .named
                        .iter()
                        .map(|f| (f.ident.as_ref().unwrap().to_string(), f.ty.clone()))
                        .collect();
                    let d = StructDef {
                        name: u.ident.to_string(),
                        packed,
                        repr_c,
                        transparent,
                        generics: vec![],
                        fields,
                        file: label.to_string(),
                        is_union: true,
                    };
                    self.order.push(("struct".into(), d.name.clone()));
                    self.structs.insert(d.name.clone(), d);
                }
                syn::Item::Impl(im) => {
                    if !cfg_active(&im.attrs) {
                        continue;
                    }
                    let self_ty = type_name(&im.self_ty);
                    let trait_name = im.trait_.as_ref().map(|(_, p, _)| p.segments.last().unwrap().ident.to_string());
                    let generics: Vec<String> = im.generics.type_params().map(|p| p.ident.to_string()).collect();
                    self.impls.push(ImplDef {
                        self_ty: self_ty.clone(),
                        trait_name: trait_name.clone(),
                        generics: generics.clone(),
                        item: im.clone(),
                        file: label.to_string(),
                    });
                    for ii in &im.items {
                        if let syn::ImplItem::Fn(f) = ii {
                            if !cfg_active(&f.attrs) {
                                continue;
                            }
                            self.fns.push(FnDef {
                                self_ty: Some(self_ty.clone()),
                                trait_name: trait_name.clone(),
                                impl_generics: generics.clone(),
                                item: f.clone(),
                                file: label.to_string(),
                            });
                        }
                    }
                }
                syn::Item::Fn(f) => {
                    if !cfg_active(&f.attrs) {
                        continue;
                    }
                    self.free_fns.push(FreeFn { item: f.clone(), file: label.to_string() });
                }
                syn::Item::Trait(t) => {
                    if !cfg_active(&t.attrs) {
                        continue;
                    }
                    self.traits.insert(
                        t.ident.to_string(),
                        TraitDef { name: t.ident.to_string(), item: t.clone(), file: label.to_string() },
                    );
                }
                syn::Item::Mod(m) => {
                    if !cfg_active(&m.attrs) {
                        continue;
                    }
                    if let Some((_, items)) = &m.content {
                        self.add_items(items, label);
                    }
                }
                _ => {}
            }
        }
    }

    pub fn find_method(&self, self_ty: &str, name: &str) -> Option<&FnDef> {
        // inherent first, then trait impls
        let mut found: Option<&FnDef> = None;
        for f in &self.fns {
            if f.self_ty.as_deref() == Some(self_ty) && f.item.sig.ident == name {
                if f.trait_name.is_none() {
                    return Some(f);
                }
                if found.is_none() {
                    found = Some(f);
                }
            }
        }
        found
    }
    pub fn find_trait_method(&self, self_ty: &str, tr: &str, name: &str) -> Option<&FnDef> {
        self.fns.iter().find(|f| {
            f.self_ty.as_deref() == Some(self_ty) && f.trait_name.as_deref() == Some(tr) && f.item.sig.ident == name
        })
    }
}
