// Forwarding operations of the two proxies (backend_req.rs: Backend as VhostUserFrontendReqHandler;
// gpu_backend_req.rs: GpuBackend): what each method hands to the send primitive - request code, the
// expressions passed as message body / payload / descriptors -, the local bindings it makes before
// that, and the conditions under which it returns early.  Expressions are kept as token strings: the
// theorem over this table demands that the caller's message is passed through untouched.
use quote::ToTokens;
use syn::visit::Visit;
use syn::{Expr, ExprMethodCall};

#[derive(Default)]
pub struct FwdRow {
    pub params: Vec<String>,
    pub lets: Vec<String>,
    pub gates: Vec<String>,
    pub sends: Vec<(String, String, Vec<String>)>,
    pub recvs: Vec<String>,
}

fn toks<T: ToTokens>(t: &T) -> String {
    t.to_token_stream().to_string()
}

struct C {
    row: FwdRow,
}

impl<'ast> Visit<'ast> for C {
    fn visit_local(&mut self, l: &'ast syn::Local) {
        if let Some(init) = &l.init {
            let pat = toks(&l.pat);
            let e = toks(&init.expr);
            // the lock acquisition is recorded by lock_ops; everything else is a value the method computes
            if !(e.contains("lock ()") || e.contains("self . node ()")) {
                // a binding whose value comes from a send is recorded through the send itself
                if !(e.contains("send_message") || e.contains("send_header") || e.contains("recv_reply")) {
                    self.row.lets.push(format!("{} = {}", pat, e));
                }
            }
        }
        syn::visit::visit_local(self, l);
    }
    fn visit_expr_if(&mut self, i: &'ast syn::ExprIf) {
        let body = toks(&i.then_branch);
        if body.contains("return") {
            self.row.gates.push(toks(&i.cond));
        }
        syn::visit::visit_expr_if(self, i);
    }
    fn visit_expr_method_call(&mut self, m: &'ast ExprMethodCall) {
        syn::visit::visit_expr_method_call(self, m);
        let name = m.method.to_string();
        match name.as_str() {
            "send_message" | "send_header" | "send_message_with_payload" => {
                let code = match m.args.first() {
                    Some(Expr::Path(p)) => p.path.segments.iter().map(|s| s.ident.to_string()).collect::<Vec<_>>().join("_"),
                    Some(e) => toks(e),
                    None => "?".into(),
                };
                let args = m.args.iter().skip(1).map(|a| toks(a)).collect();
                self.row.sends.push((name, code, args));
            }
            "recv_reply" | "wait_for_ack" => self.row.recvs.push(name),
            _ => {}
        }
    }
}

pub fn row_of(f: &syn::ImplItemFn) -> FwdRow {
    let mut c = C { row: FwdRow::default() };
    for a in &f.sig.inputs {
        if let syn::FnArg::Typed(t) = a {
            c.row.params.push(toks(&t.pat));
        }
    }
    c.visit_block(&f.block);
    c.row
}
