// Statement-level descriptors: for a function (or each arm of a `match` on the
// request code inside it) the ordered list of recognised events - gate checks,
// size checks, handler invocations, sends, receives, state updates.  The
// events are emitted in evaluation order (arguments before the call).
use quote::ToTokens;
use syn::visit::Visit;
use syn::{Expr, ExprMethodCall};

#[derive(Clone, Debug)]
pub struct Event {
    pub kind: String,
    pub arg: String,
}

pub struct Collector {
    pub events: Vec<Event>,
    pub locks: bool,
}

fn path_last2(e: &Expr) -> Option<(String, String)> {
    if let Expr::Path(p) = e {
        let segs: Vec<String> = p.path.segments.iter().map(|s| s.ident.to_string()).collect();
        if segs.len() >= 2 {
            return Some((segs[segs.len() - 2].clone(), segs[segs.len() - 1].clone()));
        }
    }
    None
}

/// the chain `self.a.b` as ["self","a","b"]
fn chain(e: &Expr) -> Vec<String> {
    match e {
        Expr::Path(p) if p.path.segments.len() == 1 => vec![p.path.segments[0].ident.to_string()],
        Expr::Field(f) => {
            let mut c = chain(&f.base);
            if let syn::Member::Named(i) = &f.member {
                c.push(i.to_string());
            }
            c
        }
        Expr::Reference(r) => chain(&r.expr),
        Expr::Paren(p) => chain(&p.expr),
        Expr::MethodCall(m) => {
            // node.lock().unwrap() style chains are transparent
            let n = m.method.to_string();
            if n == "lock" || n == "unwrap" || n == "node" || n == "as_ref" || n == "as_mut" {
                chain(&m.receiver)
            } else {
                vec![]
            }
        }
        _ => vec![],
    }
}

impl Collector {
    pub fn new() -> Self {
        Collector { events: vec![], locks: false }
    }
    pub fn with_locks() -> Self {
        let mut c = Collector::new();
        c.locks = true;
        c
    }
    fn push(&mut self, kind: &str, arg: &str) {
        self.events.push(Event { kind: kind.to_string(), arg: arg.to_string() });
    }
}

fn expr_attrs(e: &Expr) -> &[syn::Attribute] {
    match e {
        Expr::Try(x) => &x.attrs,
        Expr::MethodCall(x) => &x.attrs,
        Expr::Call(x) => &x.attrs,
        Expr::Match(x) => &x.attrs,
        Expr::If(x) => &x.attrs,
        Expr::Block(x) => &x.attrs,
        Expr::Assign(x) => &x.attrs,
        Expr::Return(x) => &x.attrs,
        Expr::Path(x) => &x.attrs,
        Expr::Binary(x) => &x.attrs,
        _ => &[],
    }
}

impl<'ast> Visit<'ast> for Collector {
    fn visit_stmt(&mut self, st: &'ast syn::Stmt) {
        let active = match st {
            syn::Stmt::Local(l) => crate::items::cfg_active(&l.attrs),
            syn::Stmt::Expr(e, _) => crate::items::cfg_active(expr_attrs(e)),
            _ => true,
        };
        if active {
            syn::visit::visit_stmt(self, st);
        }
    }
    fn visit_expr_method_call(&mut self, m: &'ast ExprMethodCall) {
        // evaluation order: receiver, arguments, then the call
        self.visit_expr(&m.receiver);
        for a in &m.args {
            self.visit_expr(a);
        }
        let name = m.method.to_string();
        let ch = chain(&m.receiver);
        let root_self = ch.first().map(|s| s == "self" || s == "node" || (self.locks && s == "guard")).unwrap_or(false);
        if self.locks && root_self && ((name == "node" && ch.len() == 1) || name == "lock") {
            self.push("Lock", &name);
            return;
        }
        if !root_self {
            return;
        }
        let on_backend = ch.len() >= 2 && (ch[1] == "backend" || ch[1] == "handler");
        let on_sock = ch.len() >= 2 && (ch[1] == "main_sock" || ch[1] == "sock" || ch[1] == "sub_sock");
        if on_backend {
            self.push("Handler", &name);
            return;
        }
        if on_sock {
            self.push("Sock", &name);
            return;
        }
        match name.as_str() {
            "check_proto_feature" | "check_feature" => {
                let bit = m.args.first().and_then(path_last2).map(|(a, b)| format!("{}_{}", a, b)).unwrap_or_else(|| "?".into());
                self.push(if name == "check_proto_feature" { "GateProto" } else { "GateVirtio" }, &bit);
            }
            "check_request_size" => self.push("CheckSize", ""),
            "check_attached_files" => self.push("CheckFiles", ""),
            "check_state" => self.push("CheckState", ""),
            "extract_request_body" => {
                let ty = m
                    .turbofish
                    .as_ref()
                    .and_then(|t| t.args.first().map(|a| a.to_token_stream().to_string()))
                    .unwrap_or_default();
                self.push("Extract", &ty);
            }
            "update_reply_ack_flag" => self.push("UpdateFlag", ""),
            "send_ack_message" => self.push("Ack", ""),
            "send_reply_message" => self.push("Reply", ""),
            "send_reply_with_payload" => self.push("ReplyPayload", ""),
            "new_reply_header" => self.push("NewReplyHdr", ""),
            "send_request_header" | "send_request_with_body" | "send_request_with_payload" | "send_fd_for_vring" => {
                let code = m.args.first().and_then(path_last2).map(|(a, b)| format!("{}_{}", a, b)).unwrap_or_else(|| "?".into());
                self.push("SendReq", &format!("{}:{}", name, code));
            }
            "recv_reply" | "recv_reply_with_files" | "recv_reply_with_optional_files" | "recv_reply_with_payload" | "wait_for_ack" => {
                self.push("Recv", &name)
            }
            "send_message" | "wait_for_ack_reply" | "send_ack" => self.push("Send", &name),
            "lock" | "unwrap" | "node" | "bits" | "is_some" | "is_none" | "clone" | "as_raw_fd" | "len" | "is_empty"
            | "iter" | "get_size" | "get_code" | "is_reply" | "is_need_reply" | "get_version" | "as_slice" | "into"
            | "map_err" | "ok_or" | "is_valid" | "to_region" | "to_single_region" | "append" | "align_to" | "push"
            | "as_ref" | "as_mut" | "swap_remove" | "into_raw_fd" | "try_into" | "is_ok" | "is_err" => {}
            other => self.push("Helper", other),
        }
    }

    fn visit_expr_assign(&mut self, a: &'ast syn::ExprAssign) {
        self.visit_expr(&a.right);
        let ch = chain(&a.left);
        if ch.first().map(|s| s == "self" || s == "node").unwrap_or(false) && ch.len() >= 2 {
            self.push("Assign", &ch[1..].join("."));
        }
    }

    fn visit_expr_call(&mut self, c: &'ast syn::ExprCall) {
        for a in &c.args {
            self.visit_expr(a);
        }
        if let Expr::Path(p) = &*c.func {
            let n = p.path.segments.last().unwrap().ident.to_string();
            if n == "drop" && self.locks {
                self.push("Unlock", "");
            } else if n == "take_single_file" {
                self.push("TakeSingle", "");
            } else if n == "error_code" {
                self.push("LocalErr", "");
            }
        }
    }

    fn visit_expr_return(&mut self, r: &'ast syn::ExprReturn) {
        if let Some(e) = &r.expr {
            self.visit_expr(e);
        }
        self.push("Return", "");
    }
}

pub fn lock_events_of_block(b: &syn::Block) -> Vec<Event> {
    let mut c = Collector::with_locks();
    c.visit_block(b);
    c.events
}

pub fn events_of_block(b: &syn::Block) -> Vec<Event> {
    let mut c = Collector::new();
    c.visit_block(b);
    c.events
}
pub fn events_of_expr(e: &Expr) -> Vec<Event> {
    let mut c = Collector::new();
    c.visit_expr(e);
    c.events
}

/// the arms `Ok(Enum::VARIANT [| ...]) => body` of the first `match` on `get_code()` in the block
pub fn request_arms(b: &syn::Block, enum_name: &str) -> Vec<(Vec<String>, Vec<Event>, bool)> {
    struct Finder<'a> {
        enum_name: &'a str,
        out: Vec<(Vec<String>, Vec<Event>, bool)>,
    }
    impl<'a, 'ast> Visit<'ast> for Finder<'a> {
        fn visit_expr_match(&mut self, m: &'ast syn::ExprMatch) {
            let scrut = m.expr.to_token_stream().to_string();
            if scrut.contains("get_code") && self.out.is_empty() {
                for arm in &m.arms {
                    let mut names = vec![];
                    collect_variants(&arm.pat, self.enum_name, &mut names);
                    let active = crate::items::cfg_active(&arm.attrs);
                    if !names.is_empty() {
                        self.out.push((names, events_of_expr(&arm.body), active));
                    }
                }
                return;
            }
            syn::visit::visit_expr_match(self, m);
        }
    }
    fn collect_variants(p: &syn::Pat, en: &str, out: &mut Vec<String>) {
        match p {
            syn::Pat::TupleStruct(ts) => {
                for e in &ts.elems {
                    collect_variants(e, en, out);
                }
            }
            syn::Pat::Or(o) => {
                for c in &o.cases {
                    collect_variants(c, en, out);
                }
            }
            syn::Pat::Path(pp) => {
                let segs: Vec<String> = pp.path.segments.iter().map(|s| s.ident.to_string()).collect();
                if segs.len() >= 2 && segs[segs.len() - 2] == en {
                    out.push(segs[segs.len() - 1].clone());
                }
            }
            syn::Pat::Paren(pp) => collect_variants(&pp.pat, en, out),
            _ => {}
        }
    }
    let mut f = Finder { enum_name, out: vec![] };
    f.visit_block(b);
    f.out
}
