// Translation of the supported pure subset of Rust function bodies to Gallina.
// Unsupported constructs are hard errors naming the item and the construct.
use crate::items::*;
use quote::ToTokens;
use std::collections::{BTreeMap, BTreeSet};
use syn::{BinOp, Block, Expr, Lit, Pat, Stmt, Type, UnOp};

#[derive(Clone, Debug, PartialEq)]
pub enum Ty {
    U(u32),
    I(u32),
    Bool,
    Unit,
    Struct(String),
    Flags(String),
    EnumV(String),
    Arr(Box<Ty>),
    Uuid,
    Opt(Box<Ty>),
    Res(Box<Ty>),
    Tuple(Vec<Ty>),
    Param(String), // a `R: Req` type parameter: a value of the enum whose table is passed as R
    Verr,
    Unknown,
}

impl Ty {
    pub fn width(&self) -> Option<u32> {
        match self {
            Ty::U(w) | Ty::I(w) => Some(*w),
            _ => None,
        }
    }
    pub fn gallina(&self) -> String {
        match self {
            Ty::U(_) | Ty::I(_) | Ty::Flags(_) | Ty::EnumV(_) | Ty::Param(_) => "N".into(),
            Ty::Bool => "bool".into(),
            Ty::Unit => "unit".into(),
            Ty::Struct(s) => s.clone(),
            Ty::Arr(e) => format!("(list {})", e.gallina()),
            Ty::Uuid => "(list N)".into(),
            Ty::Opt(t) => format!("(option {})", t.gallina()),
            Ty::Res(t) => format!("(rresult {})", t.gallina()),
            Ty::Tuple(ts) => {
                if ts.is_empty() {
                    "unit".into()
                } else {
                    format!("({})", ts.iter().map(|t| t.gallina()).collect::<Vec<_>>().join(" * "))
                }
            }
            Ty::Verr => "verr".into(),
            Ty::Unknown => "_".into(),
        }
    }
}

pub fn coq_ident(s: &str) -> String {
    const KW: &[&str] = &[
        "type", "end", "at", "in", "fix", "return", "match", "with", "as", "using", "fun", "let", "if", "then",
        "else", "forall", "exists", "Set", "Prop", "Type", "where", "for", "struct", "mod",
    ];
    if KW.contains(&s) {
        format!("{}_", s)
    } else {
        s.to_string()
    }
}

#[derive(Clone)]
pub struct Env {
    pub vars: BTreeMap<String, (String, Ty)>,
    pub self_ty: Option<String>,
    pub generics: Vec<String>,
    pub ret: Ty,
    pub item: String,
}

pub struct Tr<'a> {
    pub items: &'a Items,
    pub emitted: BTreeMap<String, (String, Ty)>, // key "Type::method" -> (gallina name, ret ty)
    pub out: Vec<(String, String)>,               // (key, definition text) in dependency order
    pub in_progress: BTreeSet<String>,
}

type R<T> = Result<T, String>;

fn int_ty(name: &str) -> Option<Ty> {
    Some(match name {
        "u8" => Ty::U(8),
        "u16" => Ty::U(16),
        "u32" => Ty::U(32),
        "u64" => Ty::U(64),
        "usize" => Ty::U(64),
        "u128" => Ty::U(128),
        "i8" => Ty::I(8),
        "i16" => Ty::I(16),
        "i32" => Ty::I(32),
        "i64" => Ty::I(64),
        "isize" => Ty::I(64),
        "c_int" => Ty::I(32),
        "c_uint" => Ty::U(32),
        "c_ulong" => Ty::U(64),
        "__u8" => Ty::U(8),
        "__u16" => Ty::U(16),
        "__u32" => Ty::U(32),
        "__u64" => Ty::U(64),
        "__s32" => Ty::I(32),
        "__s64" => Ty::I(64),
        "RawFd" => Ty::I(32),
        _ => return None,
    })
}

impl<'a> Tr<'a> {
    pub fn new(items: &'a Items) -> Self {
        Tr { items, emitted: BTreeMap::new(), out: vec![], in_progress: BTreeSet::new() }
    }

    pub fn ty_of(&self, t: &Type, generics: &[String]) -> R<Ty> {
        match t {
            Type::Path(p) => {
                let seg = p.path.segments.last().unwrap();
                let n = seg.ident.to_string();
                if let Some(t) = int_ty(&n) {
                    return Ok(t);
                }
                if n == "bool" {
                    return Ok(Ty::Bool);
                }
                if n == "Self" {
                    return Err("Self type outside impl".into());
                }
                if n == "Uuid" {
                    return Ok(Ty::Uuid);
                }
                if generics.contains(&n) {
                    return Ok(Ty::Param(n));
                }
                if n == "Option" || n == "Result" || n == "VhostUserResult" || n == "HandlerResult" {
                    if let syn::PathArguments::AngleBracketed(ab) = &seg.arguments {
                        if let Some(syn::GenericArgument::Type(inner)) = ab.args.first() {
                            let it = self.ty_of(inner, generics)?;
                            return Ok(if n == "Option" { Ty::Opt(Box::new(it)) } else { Ty::Res(Box::new(it)) });
                        }
                    }
                    return Err(format!("unsupported type {}", t.to_token_stream()));
                }
                if self.items.structs.contains_key(&n) {
                    return Ok(Ty::Struct(n));
                }
                if self.items.flags.contains_key(&n) {
                    return Ok(Ty::Flags(n));
                }
                if self.items.enums.contains_key(&n) {
                    return Ok(Ty::EnumV(n));
                }
                Err(format!("unsupported type {}", t.to_token_stream()))
            }
            Type::Reference(r) => self.ty_of(&r.elem, generics),
            Type::Array(a) => Ok(Ty::Arr(Box::new(self.ty_of(&a.elem, generics)?))),
            Type::Slice(a) => Ok(Ty::Arr(Box::new(self.ty_of(&a.elem, generics)?))),
            Type::Tuple(tp) => {
                let mut v = vec![];
                for e in &tp.elems {
                    v.push(self.ty_of(e, generics)?);
                }
                if v.is_empty() {
                    Ok(Ty::Unit)
                } else {
                    Ok(Ty::Tuple(v))
                }
            }
            Type::Paren(p) => self.ty_of(&p.elem, generics),
            _ => Err(format!("unsupported type {}", t.to_token_stream())),
        }
    }

    fn flags_width(&self, name: &str) -> u32 {
        int_ty(&self.items.flags[name].ty).and_then(|t| t.width()).unwrap_or(64)
    }

    pub fn lit_value(s: &str) -> R<String> {
        let s = s.replace('_', "");
        let (digits, radix) = if let Some(h) = s.strip_prefix("0x") {
            (h.to_string(), 16)
        } else if let Some(b) = s.strip_prefix("0b") {
            (b.to_string(), 2)
        } else if let Some(o) = s.strip_prefix("0o") {
            (o.to_string(), 8)
        } else {
            (s.clone(), 10)
        };
        u128::from_str_radix(&digits, radix).map(|v| v.to_string()).map_err(|e| format!("literal {}: {}", s, e))
    }

    /// translate a side-effect-free expression
    pub fn expr(&mut self, e: &Expr, env: &Env, hint: Option<&Ty>) -> R<(String, Ty)> {
        let ctx = |c: &str| format!("{}: unsupported {}: `{}`", env.item, c, e.to_token_stream());
        match e {
            Expr::Paren(p) => self.expr(&p.expr, env, hint),
            Expr::Group(p) => self.expr(&p.expr, env, hint),
            Expr::Reference(r) => self.expr(&r.expr, env, hint),
            Expr::Lit(l) => match &l.lit {
                Lit::Int(i) => {
                    let v = Self::lit_value(i.base10_digits())?;
                    let ty = if !i.suffix().is_empty() {
                        int_ty(i.suffix()).ok_or_else(|| ctx("literal suffix"))?
                    } else if let Some(h) = hint {
                        h.clone()
                    } else {
                        Ty::Unknown
                    };
                    Ok((v, ty))
                }
                Lit::Bool(b) => Ok((if b.value { "true".into() } else { "false".into() }, Ty::Bool)),
                _ => Err(ctx("literal")),
            },
            Expr::Path(p) => {
                let segs: Vec<String> = p.path.segments.iter().map(|s| s.ident.to_string()).collect();
                if segs.len() == 1 {
                    if let Some((g, t)) = env.vars.get(&segs[0]) {
                        return Ok((g.clone(), t.clone()));
                    }
                    if let Some(c) = self.items.consts.iter().find(|c| c.name == segs[0]) {
                        let t = self.ty_of(&c.ty, &[])?;
                        return Ok((coq_ident(&c.name), t));
                    }
                    if segs[0] == "None" {
                        return Ok(("None".into(), hint.cloned().unwrap_or(Ty::Opt(Box::new(Ty::Unknown)))));
                    }
                    return Err(ctx("path"));
                }
                let (a, b) = (&segs[segs.len() - 2], &segs[segs.len() - 1]);
                if let Some(f) = self.items.flags.get(a) {
                    if f.consts.iter().any(|(n, _)| n == b) {
                        return Ok((format!("{}_{}", a, b), Ty::Flags(a.clone())));
                    }
                }
                if let Some(en) = self.items.enums.get(a) {
                    if en.variants.iter().any(|(n, _)| n == b) {
                        return Ok((format!("{}_{}", a, b), Ty::EnumV(a.clone())));
                    }
                }
                if a == "Error" || a == "VhostUserError" {
                    return Ok((format!("E{}", b), Ty::Verr));
                }
                if a == "u32" && b == "MAX" {
                    return Ok(("4294967295".into(), Ty::U(32)));
                }
                if a == "u64" && b == "MAX" {
                    return Ok(("18446744073709551615".into(), Ty::U(64)));
                }
                if a == "u16" && b == "MAX" {
                    return Ok(("65535".into(), Ty::U(16)));
                }
                if a == "usize" && b == "MAX" {
                    return Ok(("18446744073709551615".into(), Ty::U(64)));
                }
                Err(ctx("path"))
            }
            Expr::Field(f) => {
                let (b, bt) = self.expr(&f.base, env, None)?;
                let fname = match &f.member {
                    syn::Member::Named(i) => i.to_string(),
                    syn::Member::Unnamed(i) => format!("_{}", i.index),
                };
                match &bt {
                    Ty::Struct(s) => {
                        let sd = self.items.structs.get(s).ok_or_else(|| ctx("struct"))?;
                        let (_, fty) = sd.fields.iter().find(|(n, _)| *n == fname).ok_or_else(|| ctx("field"))?;
                        let t = self.ty_of(fty, &sd.generics)?;
                        Ok((format!("({}_{} {})", s, fname, b), t))
                    }
                    Ty::Tuple(ts) => {
                        if let syn::Member::Unnamed(i) = &f.member {
                            let idx = i.index as usize;
                            if ts.len() == 2 {
                                let g = if idx == 0 { format!("(fst {})", b) } else { format!("(snd {})", b) };
                                return Ok((g, ts[idx].clone()));
                            }
                        }
                        Err(ctx("tuple field"))
                    }
                    _ => Err(ctx("field base")),
                }
            }
            Expr::Unary(u) => {
                let (a, at) = self.expr(&u.expr, env, hint)?;
                match u.op {
                    UnOp::Not(_) => match at {
                        Ty::Bool => Ok((format!("(negb {})", a), Ty::Bool)),
                        Ty::U(w) => Ok((format!("(lnot {} {})", w, a), Ty::U(w))),
                        Ty::Flags(ref n) => {
                            let w = self.flags_width(n);
                            Ok((format!("(lnot {} {})", w, a), at.clone()))
                        }
                        Ty::Unknown => {
                            let w = hint.and_then(|h| h.width()).ok_or_else(|| ctx("`!` on untyped literal"))?;
                            Ok((format!("(lnot {} {})", w, a), Ty::U(w)))
                        }
                        _ => Err(ctx("`!` operand")),
                    },
                    UnOp::Deref(_) => Ok((a, at)),
                    _ => Err(ctx("unary operator")),
                }
            }
            Expr::Binary(b) => self.binary(b, env, hint),
            Expr::Cast(c) => {
                let tt = self.ty_of(&c.ty, &env.generics)?;
                let (a, at) = self.expr(&c.expr, env, None)?;
                match (&at, &tt) {
                    (Ty::U(w1), Ty::U(w2)) if w2 >= w1 => Ok((a, tt)),
                    (Ty::U(_), Ty::U(w2)) => Ok((format!("(cast {} {})", w2, a), tt)),
                    (Ty::Unknown, Ty::U(_)) => Ok((a, tt)),
                    (Ty::EnumV(_), Ty::U(_)) | (Ty::Flags(_), Ty::U(_)) | (Ty::Param(_), Ty::U(_)) => Ok((a, tt)),
                    (Ty::Bool, Ty::U(_)) => Ok((format!("(if {} then 1 else 0)", a), tt)),
                    _ => Err(ctx("cast")),
                }
            }
            Expr::MethodCall(m) => self.method_call(m, env, hint),
            Expr::Call(c) => self.call(c, env, hint),
            Expr::If(i) => {
                if let Expr::Let(_) = &*i.cond {
                    return self.if_stmt(i, &[], env, hint);
                }
                let (c, _) = self.cond(&i.cond, env)?;
                let (t, tt) = self.block_value(&i.then_branch, env, hint)?;
                let eb = i.else_branch.as_ref().ok_or_else(|| ctx("if without else in value position"))?;
                let (f, ft) = self.expr(&eb.1, env, hint.or(Some(&tt)))?;
                let ty = if tt != Ty::Unknown { tt } else { ft };
                Ok((format!("(if {} then {} else {})", c, t, f), ty))
            }
            Expr::Block(b) => self.block_value(&b.block, env, hint),
            Expr::Match(m) => {
                let (s, st) = self.expr(&m.expr, env, None)?;
                let mut arms = vec![];
                let mut rty = Ty::Unknown;
                for arm in &m.arms {
                    if arm.guard.is_some() {
                        return Err(ctx("match guard"));
                    }
                    let mut env2 = env.clone();
                    let p = self.pattern(&arm.pat, &st, &mut env2)?;
                    let (v, vt) = self.expr(&arm.body, &env2, hint)?;
                    if rty == Ty::Unknown {
                        rty = vt;
                    }
                    arms.push(format!("| {} => {}", p, v));
                }
                Ok((format!("(match {} with {} end)", s, arms.join(" ")), rty))
            }
            Expr::Tuple(t) => {
                let mut gs = vec![];
                let mut ts = vec![];
                for e in &t.elems {
                    let (g, t) = self.expr(e, env, None)?;
                    gs.push(g);
                    ts.push(t);
                }
                if gs.is_empty() {
                    return Ok(("tt".into(), Ty::Unit));
                }
                Ok((format!("({})", gs.join(", ")), Ty::Tuple(ts)))
            }
            Expr::Struct(s) => {
                let n = s.path.segments.last().unwrap().ident.to_string();
                let n = if n == "Self" { env.self_ty.clone().ok_or_else(|| ctx("Self"))? } else { n };
                let sd = self.items.structs.get(&n).ok_or_else(|| ctx("struct literal"))?.clone();
                let mut parts = vec![];
                for (fname, fty) in &sd.fields {
                    if type_name(fty) == "PhantomData" {
                        continue;
                    }
                    let fe = s
                        .fields
                        .iter()
                        .find(|fv| matches!(&fv.member, syn::Member::Named(i) if i == fname))
                        .ok_or_else(|| ctx("missing field in struct literal"))?;
                    let ft = self.ty_of(fty, &sd.generics)?;
                    let (g, _) = self.expr(&fe.expr, env, Some(&ft))?;
                    parts.push(format!("{}_{} := {}", n, fname, g));
                }
                Ok((format!("{{| {} |}}", parts.join("; ")), Ty::Struct(n)))
            }
            _ => Err(ctx("expression")),
        }
    }

    fn cond(&mut self, e: &Expr, env: &Env) -> R<(String, Ty)> {
        if let Expr::Let(_) = e {
            return Err(format!("{}: unsupported `if let` in pure position: `{}`", env.item, e.to_token_stream()));
        }
        self.expr(e, env, Some(&Ty::Bool))
    }

    fn binary(&mut self, b: &syn::ExprBinary, env: &Env, hint: Option<&Ty>) -> R<(String, Ty)> {
        let ctx = |c: &str| format!("{}: unsupported {}: `{}`", env.item, c, b.to_token_stream());
        let is_cmp = matches!(b.op, BinOp::Eq(_) | BinOp::Ne(_) | BinOp::Lt(_) | BinOp::Le(_) | BinOp::Gt(_) | BinOp::Ge(_));
        let is_logic = matches!(b.op, BinOp::And(_) | BinOp::Or(_));
        let h: Option<&Ty> = if is_cmp { None } else if is_logic { Some(&Ty::Bool) } else { hint };
        // type the literal side from the other side
        let (l, lt, r, rt) = {
            let l_is_lit = matches!(&*b.left, Expr::Lit(_));
            if l_is_lit {
                let (r, rt) = self.expr(&b.right, env, h)?;
                let (l, lt) = self.expr(&b.left, env, Some(&rt))?;
                (l, lt, r, rt)
            } else {
                let (l, lt) = self.expr(&b.left, env, h)?;
                let (r, rt) = self.expr(&b.right, env, Some(&lt))?;
                (l, lt, r, rt)
            }
        };
        let num_ty = |a: &Ty, b: &Ty| -> Ty {
            if *a != Ty::Unknown {
                a.clone()
            } else {
                b.clone()
            }
        };
        match b.op {
            BinOp::And(_) => Ok((format!("(andb {} {})", l, r), Ty::Bool)),
            BinOp::Or(_) => Ok((format!("(orb {} {})", l, r), Ty::Bool)),
            BinOp::BitAnd(_) => Ok((format!("(N.land {} {})", l, r), num_ty(&lt, &rt))),
            BinOp::BitOr(_) => Ok((format!("(N.lor {} {})", l, r), num_ty(&lt, &rt))),
            BinOp::BitXor(_) => Ok((format!("(N.lxor {} {})", l, r), num_ty(&lt, &rt))),
            BinOp::Eq(_) | BinOp::Ne(_) => {
                let t = num_ty(&lt, &rt);
                let eq = match t {
                    Ty::Bool => format!("(Bool.eqb {} {})", l, r),
                    Ty::U(_) | Ty::I(_) | Ty::EnumV(_) | Ty::Flags(_) | Ty::Param(_) | Ty::Unknown => {
                        format!("(N.eqb {} {})", l, r)
                    }
                    _ => return Err(ctx("equality on this type")),
                };
                if matches!(b.op, BinOp::Ne(_)) {
                    Ok((format!("(negb {})", eq), Ty::Bool))
                } else {
                    Ok((eq, Ty::Bool))
                }
            }
            BinOp::Lt(_) => Ok((format!("(N.ltb {} {})", l, r), Ty::Bool)),
            BinOp::Le(_) => Ok((format!("(N.leb {} {})", l, r), Ty::Bool)),
            BinOp::Gt(_) => Ok((format!("(N.ltb {} {})", r, l), Ty::Bool)),
            BinOp::Ge(_) => Ok((format!("(N.leb {} {})", r, l), Ty::Bool)),
            BinOp::Shl(_) => {
                // only constant shifts of constants in the pure subset
                let t = num_ty(&lt, &rt);
                let w = t.width().or(hint.and_then(|h| h.width())).ok_or_else(|| ctx("shift width"))?;
                Ok((format!("(cast {} (N.shiftl {} {}))", w, l, r), if t == Ty::Unknown { Ty::U(w) } else { t }))
            }
            _ => Err(ctx("binary operator (arithmetic needs the monadic translator)")),
        }
    }

    fn method_call(&mut self, m: &syn::ExprMethodCall, env: &Env, hint: Option<&Ty>) -> R<(String, Ty)> {
        let ctx = |c: &str| format!("{}: unsupported {}: `{}`", env.item, c, m.to_token_stream());
        let name = m.method.to_string();
        // X::try_from(e).map_err(|_| Error::Y) and friends are handled on the receiver
        let (recv, rt) = self.expr(&m.receiver, env, None)?;
        match (name.as_str(), &rt) {
            ("bits", Ty::Flags(f)) => {
                let w = self.flags_width(f);
                Ok((recv, Ty::U(w)))
            }
            ("is_some", Ty::Opt(_)) => Ok((format!("(o_is_some {})", recv), Ty::Bool)),
            ("is_none", Ty::Opt(_)) => Ok((format!("(o_is_none {})", recv), Ty::Bool)),
            ("is_ok", Ty::Res(_)) => Ok((format!("(r_is_ok {})", recv), Ty::Bool)),
            ("is_err", Ty::Res(_)) => Ok((format!("(r_is_err {})", recv), Ty::Bool)),
            ("is_ok", Ty::Opt(_)) => Ok((format!("(o_is_some {})", recv), Ty::Bool)),
            ("is_err", Ty::Opt(_)) => Ok((format!("(o_is_none {})", recv), Ty::Bool)),
            ("checked_add", Ty::U(w)) => {
                let (a, _) = self.expr(&m.args[0], env, Some(&rt))?;
                Ok((format!("(checked_add {} {} {})", w, recv, a), Ty::Opt(Box::new(rt.clone()))))
            }
            ("checked_sub", Ty::U(w)) => {
                let (a, _) = self.expr(&m.args[0], env, Some(&rt))?;
                Ok((format!("(checked_sub {} {} {})", w, recv, a), Ty::Opt(Box::new(rt.clone()))))
            }
            ("saturating_add", Ty::U(w)) => {
                let (a, _) = self.expr(&m.args[0], env, Some(&rt))?;
                Ok((format!("(saturating_add {} {} {})", w, recv, a), rt.clone()))
            }
            ("wrapping_add", Ty::U(w)) => {
                let (a, _) = self.expr(&m.args[0], env, Some(&rt))?;
                Ok((format!("(wrapping_add {} {} {})", w, recv, a), rt.clone()))
            }
            ("wrapping_sub", Ty::U(w)) => {
                let (a, _) = self.expr(&m.args[0], env, Some(&rt))?;
                Ok((format!("(wrapping_sub {} {} {})", w, recv, a), rt.clone()))
            }
            ("count_ones", Ty::U(_)) => Ok((format!("(popcount {})", recv), Ty::U(32))),
            ("is_power_of_two", Ty::U(_)) => Ok((format!("(N.eqb (popcount {}) 1)", recv), Ty::Bool)),
            ("is_nil", Ty::Uuid) => Ok((format!("(uuid_is_nil {})", recv), Ty::Bool)),
            ("is_max", Ty::Uuid) => Ok((format!("(uuid_is_max {})", recv), Ty::Bool)),
            ("into", Ty::Param(_)) | ("into", Ty::EnumV(_)) => Ok((recv, hint.cloned().unwrap_or(Ty::U(32)))),
            ("into", Ty::U(_)) => Ok((recv, hint.cloned().unwrap_or(rt.clone()))),
            ("clone", _) => Ok((recv, rt.clone())),
            ("map_err", Ty::Opt(inner)) | ("map_err", Ty::Res(inner)) => {
                // only closures that ignore their argument and return a constant error
                if let Expr::Closure(c) = &m.args[0] {
                    if let Ok((ev, Ty::Verr)) = self.expr(&c.body, env, None) {
                        let g = match &rt {
                            Ty::Opt(_) => format!("(map_err_const {} {})", recv, ev),
                            _ => format!(
                                "(match {} with ROk v_ => ROk v_ | RErr _ => RErr {} end)",
                                recv, ev
                            ),
                        };
                        return Ok((g, Ty::Res(inner.clone())));
                    }
                }
                Err(ctx("map_err closure"))
            }
            ("ok_or", Ty::Opt(inner)) => {
                let (ev, _) = self.expr(&m.args[0], env, None)?;
                Ok((format!("(ok_or {} {})", recv, ev), Ty::Res(inner.clone())))
            }
            ("len", Ty::Arr(_)) => Ok((format!("(N.of_nat (List.length {}))", recv), Ty::U(64))),
            ("is_empty", Ty::Arr(_)) => Ok((format!("(N.eqb (N.of_nat (List.length {})) 0)", recv), Ty::Bool)),
            (_, Ty::Struct(s)) => {
                let s = s.clone();
                let mut args = vec![];
                let f = self.items.find_method(&s, &name).ok_or_else(|| ctx("method (not found)"))?.clone();
                let (gname, ret) = self.function(&f)?;
                let mut ptys = vec![];
                for a in f.item.sig.inputs.iter().skip(1) {
                    if let syn::FnArg::Typed(pt) = a {
                        ptys.push(self.ty_of_in(&pt.ty, &f)?);
                    }
                }
                for (i, a) in m.args.iter().enumerate() {
                    let (g, _) = self.expr(a, env, ptys.get(i))?;
                    args.push(g);
                }
                let gen = self.generic_args(&f, env)?;
                Ok((format!("({}{} {} {})", gname, gen, recv, args.join(" ")).replace("  ", " ").replace(" )", ")"), ret))
            }
            _ => Err(ctx(&format!("method `{}` on {:?}", name, rt))),
        }
    }

    fn generic_args(&self, f: &FnDef, env: &Env) -> R<String> {
        // a callee in a generic impl takes the enum table of each type parameter
        let mut s = String::new();
        for g in &f.impl_generics {
            if env.generics.contains(g) {
                s.push_str(&format!(" {}", g));
            } else if env.generics.len() == 1 && f.impl_generics.len() == 1 {
                s.push_str(&format!(" {}", env.generics[0]));
            } else {
                return Err(format!("{}: cannot pass type parameter {} to callee", env.item, g));
            }
        }
        Ok(s)
    }

    fn ty_of_in(&self, t: &Type, f: &FnDef) -> R<Ty> {
        if type_name(t) == "Self" {
            return Ok(Ty::Struct(f.self_ty.clone().unwrap()));
        }
        self.ty_of(t, &f.impl_generics)
    }

    fn call(&mut self, c: &syn::ExprCall, env: &Env, hint: Option<&Ty>) -> R<(String, Ty)> {
        let ctx = |k: &str| format!("{}: unsupported {}: `{}`", env.item, k, c.to_token_stream());
        let p = match &*c.func {
            Expr::Path(p) => p,
            _ => return Err(ctx("call target")),
        };
        let segs: Vec<String> = p.path.segments.iter().map(|s| s.ident.to_string()).collect();
        let last = segs.last().unwrap().clone();
        if segs.len() == 1 {
            match last.as_str() {
                "Some" => {
                    let inner_hint = match hint {
                        Some(Ty::Opt(t)) => Some((**t).clone()),
                        _ => None,
                    };
                    let (g, t) = self.expr(&c.args[0], env, inner_hint.as_ref())?;
                    return Ok((format!("(Some {})", g), Ty::Opt(Box::new(t))));
                }
                "Ok" => {
                    let inner_hint = match hint {
                        Some(Ty::Res(t)) => Some((**t).clone()),
                        _ => None,
                    };
                    let (g, t) = self.expr(&c.args[0], env, inner_hint.as_ref())?;
                    return Ok((format!("(ROk {})", g), Ty::Res(Box::new(t))));
                }
                "Err" => {
                    let (g, _) = self.expr(&c.args[0], env, None)?;
                    let t = match hint {
                        Some(t @ Ty::Res(_)) => t.clone(),
                        _ => Ty::Res(Box::new(Ty::Unknown)),
                    };
                    return Ok((format!("(RErr {})", g), t));
                }
                _ => {
                    if let Some(ff) = self.items.free_fns.iter().find(|f| f.item.sig.ident == last).cloned() {
                        let (gname, ret) = self.free_function(&ff)?;
                        let mut args = vec![];
                        let mut ptys = vec![];
                        for a in ff.item.sig.inputs.iter() {
                            if let syn::FnArg::Typed(pt) = a {
                                ptys.push(self.ty_of(&pt.ty, &[])?);
                            }
                        }
                        for (i, a) in c.args.iter().enumerate() {
                            let (g, _) = self.expr(a, env, ptys.get(i))?;
                            args.push(g);
                        }
                        return Ok((format!("({} {})", gname, args.join(" ")), ret));
                    }
                    return Err(ctx("function"));
                }
            }
        }
        let a = segs[segs.len() - 2].clone();
        // size_of::<T>()
        if last == "size_of" {
            if let syn::PathArguments::AngleBracketed(ab) = &p.path.segments.last().unwrap().arguments {
                if let Some(syn::GenericArgument::Type(t)) = ab.args.first() {
                    let n = type_name(t);
                    if let Some(it) = int_ty(&n) {
                        return Ok((format!("{}", it.width().unwrap() / 8), Ty::U(64)));
                    }
                    return Ok((format!("(N.of_nat (fty_size {}_layout))", n), Ty::U(64)));
                }
            }
            return Err(ctx("size_of"));
        }
        if self.items.flags.contains_key(&a) {
            let w = self.flags_width(&a);
            return match last.as_str() {
                "all" => Ok((format!("{}_all", a), Ty::Flags(a))),
                "empty" => Ok(("0".into(), Ty::Flags(a))),
                "from_bits" => {
                    let (g, _) = self.expr(&c.args[0], env, Some(&Ty::U(w)))?;
                    Ok((format!("(flags_from_bits {} {}_all {})", w, a, g), Ty::Opt(Box::new(Ty::Flags(a)))))
                }
                "from_bits_truncate" => {
                    let (g, _) = self.expr(&c.args[0], env, Some(&Ty::U(w)))?;
                    Ok((format!("(flags_truncate {}_all {})", a, g), Ty::Flags(a)))
                }
                _ => Err(ctx("bitflags associated function")),
            };
        }
        if self.items.enums.contains_key(&a) && last == "try_from" {
            let (g, _) = self.expr(&c.args[0], env, Some(&Ty::U(32)))?;
            return Ok((format!("(enum_try_from {}_table {})", a, g), Ty::Opt(Box::new(Ty::EnumV(a)))));
        }
        if env.generics.contains(&a) && last == "try_from" {
            let (g, _) = self.expr(&c.args[0], env, Some(&Ty::U(32)))?;
            return Ok((format!("(enum_try_from {} {})", a, g), Ty::Opt(Box::new(Ty::Param(a)))));
        }
        // Type::assoc_fn(args)
        let tyname = if a == "Self" { env.self_ty.clone().ok_or_else(|| ctx("Self"))? } else { a.clone() };
        if self.items.structs.contains_key(&tyname) {
            let f = self.items.find_method(&tyname, &last).ok_or_else(|| ctx("associated function"))?.clone();
            let (gname, ret) = self.function(&f)?;
            let mut ptys = vec![];
            for a in f.item.sig.inputs.iter() {
                if let syn::FnArg::Typed(pt) = a {
                    ptys.push(self.ty_of_in(&pt.ty, &f)?);
                }
            }
            let mut args = vec![];
            for (i, a) in c.args.iter().enumerate() {
                let (g, _) = self.expr(a, env, ptys.get(i))?;
                args.push(g);
            }
            let gen = self.generic_args(&f, env)?;
            return Ok((format!("({}{} {})", gname, gen, args.join(" ")), ret));
        }
        Err(ctx("call"))
    }

    fn pattern(&mut self, p: &Pat, scrut_ty: &Ty, env: &mut Env) -> R<String> {
        let ctx = |k: &str| format!("{}: unsupported pattern {}: `{}`", env.item, k, p.to_token_stream());
        match p {
            Pat::Wild(_) => Ok("_".into()),
            Pat::Ident(i) => {
                let n = i.ident.to_string();
                if n == "None" {
                    return Ok("None".into());
                }
                let g = coq_ident(&n);
                env.vars.insert(n, (g.clone(), scrut_ty.clone()));
                Ok(g)
            }
            Pat::Path(pp) => {
                let n = pp.path.segments.last().unwrap().ident.to_string();
                if n == "None" {
                    Ok("None".into())
                } else {
                    Err(ctx("path"))
                }
            }
            Pat::TupleStruct(ts) => {
                let n = ts.path.segments.last().unwrap().ident.to_string();
                let inner_ty = match (n.as_str(), scrut_ty) {
                    ("Some", Ty::Opt(t)) => (**t).clone(),
                    ("Ok", Ty::Res(t)) => (**t).clone(),
                    ("Ok", Ty::Opt(t)) => (**t).clone(), // try_from results are modelled as option
                    ("Err", Ty::Res(_)) => Ty::Verr,
                    ("Err", Ty::Opt(_)) => Ty::Unit,
                    _ => return Err(ctx("constructor")),
                };
                let inner = self.pattern(&ts.elems[0], &inner_ty, env)?;
                let c = match (n.as_str(), scrut_ty) {
                    ("Some", _) => "Some",
                    ("Ok", Ty::Res(_)) => "ROk",
                    ("Ok", Ty::Opt(_)) => "Some",
                    ("Err", Ty::Res(_)) => "RErr",
                    ("Err", Ty::Opt(_)) => return Ok("None".into()),
                    _ => unreachable!(),
                };
                Ok(format!("{} {}", c, inner))
            }
            Pat::Tuple(t) => {
                let tys = match scrut_ty {
                    Ty::Tuple(ts) => ts.clone(),
                    _ => return Err(ctx("tuple")),
                };
                let mut parts = vec![];
                for (i, e) in t.elems.iter().enumerate() {
                    parts.push(self.pattern(e, &tys[i], env)?);
                }
                Ok(format!("({})", parts.join(", ")))
            }
            Pat::Lit(l) => {
                if let Lit::Int(i) = &l.lit {
                    return Ok(format!("{}%N", Self::lit_value(i.base10_digits())?));
                }
                Err(ctx("literal"))
            }
            _ => Err(ctx("form")),
        }
    }

    /// value of a block all of whose paths end in `return` or a tail expression
    pub fn block_value(&mut self, b: &Block, env: &Env, hint: Option<&Ty>) -> R<(String, Ty)> {
        self.stmts(&b.stmts, env, hint)
    }

    fn diverges(e: &Expr) -> bool {
        match e {
            Expr::Return(_) => true,
            Expr::Block(b) => b.block.stmts.last().map(|s| Self::stmt_diverges(s)).unwrap_or(false),
            Expr::If(i) => {
                i.then_branch.stmts.last().map(|s| Self::stmt_diverges(s)).unwrap_or(false)
                    && i.else_branch.as_ref().map(|(_, e)| Self::diverges(e)).unwrap_or(false)
            }
            _ => false,
        }
    }
    fn stmt_diverges(s: &Stmt) -> bool {
        match s {
            Stmt::Expr(e, _) => Self::diverges(e),
            _ => false,
        }
    }

    fn stmts(&mut self, stmts: &[Stmt], env: &Env, hint: Option<&Ty>) -> R<(String, Ty)> {
        if stmts.is_empty() {
            return Ok(("tt".into(), Ty::Unit));
        }
        let rest = &stmts[1..];
        let ctx = |k: &str, s: &Stmt| format!("{}: unsupported {}: `{}`", env.item, k, s.to_token_stream());
        match &stmts[0] {
            Stmt::Local(l) => {
                let init = l.init.as_ref().ok_or_else(|| ctx("let without init", &stmts[0]))?;
                if init.diverge.is_some() {
                    return Err(ctx("let-else", &stmts[0]));
                }
                let (pat, pty) = match &l.pat {
                    Pat::Type(pt) => ((*pt.pat).clone(), Some(self.ty_of(&pt.ty, &env.generics)?)),
                    p => (p.clone(), None),
                };
                if let Pat::Ident(pi) = &pat {
                    if pi.mutability.is_some() {
                        return Err(ctx("let mut", &stmts[0]));
                    }
                }
                // `let x = match e { P => v, Q => return r };`
                if let Expr::Match(m) = &*init.expr {
                    if m.arms.iter().any(|a| Self::diverges(&a.body)) {
                        let (s, st) = self.expr(&m.expr, env, None)?;
                        let mut arms = vec![];
                        let mut rty = Ty::Unknown;
                        for arm in &m.arms {
                            let mut env2 = env.clone();
                            let p = self.pattern(&arm.pat, &st, &mut env2)?;
                            if Self::diverges(&arm.body) {
                                let (v, _) = self.ret_value(&arm.body, &env2)?;
                                arms.push(format!("| {} => {}", p, v));
                            } else {
                                let (v, vt) = self.expr(&arm.body, &env2, pty.as_ref())?;
                                let mut env3 = env2.clone();
                                let pg = self.pattern(&pat, &vt, &mut env3)?;
                                let (r, rt) = self.stmts(rest, &env3, hint)?;
                                rty = rt;
                                arms.push(format!("| {} => let {} := {} in {}", p, pg, v, r));
                            }
                        }
                        return Ok((format!("(match {} with {} end)", s, arms.join(" ")), rty));
                    }
                }
                // `let x = e?;`
                if let Expr::Try(t) = &*init.expr {
                    let (v, vt) = self.expr(&t.expr, env, None)?;
                    let mut env2 = env.clone();
                    match vt {
                        Ty::Res(inner) => {
                            let pg = self.pattern(&pat, &inner, &mut env2)?;
                            let (r, rt) = self.stmts(rest, &env2, hint)?;
                            return Ok((format!("(match {} with ROk {} => {} | RErr e_ => RErr e_ end)", v, pg, r), rt));
                        }
                        Ty::Opt(inner) => {
                            let pg = self.pattern(&pat, &inner, &mut env2)?;
                            let (r, rt) = self.stmts(rest, &env2, hint)?;
                            return Ok((format!("(match {} with Some {} => {} | None => None end)", v, pg, r), rt));
                        }
                        _ => return Err(ctx("`?` operand type", &stmts[0])),
                    }
                }
                let (v, vt) = self.expr(&init.expr, env, pty.as_ref())?;
                let vt = pty.unwrap_or(vt);
                let mut env2 = env.clone();
                let pg = self.pattern(&pat, &vt, &mut env2)?;
                let (r, rt) = self.stmts(rest, &env2, hint)?;
                let pg = if pg.starts_with('(') { format!("'{}", pg) } else { pg };
                Ok((format!("(let {} := {} in {})", pg, v, r), rt))
            }
            Stmt::Expr(e, semi) => {
                match e {
                    Expr::Return(_) => self.ret_value(e, env),
                    Expr::If(i) if semi.is_some() || !rest.is_empty() || Self::diverges(e) => {
                        // statement-level `if`: the then-branch must diverge
                        self.if_stmt(i, rest, env, hint)
                    }
                    _ => {
                        if rest.is_empty() && semi.is_none() {
                            self.expr(e, env, hint.or(Some(&env.ret)))
                        } else {
                            Err(ctx("expression statement", &stmts[0]))
                        }
                    }
                }
            }
            s => Err(ctx("statement", s)),
        }
    }

    fn if_stmt(&mut self, i: &syn::ExprIf, rest: &[Stmt], env: &Env, hint: Option<&Ty>) -> R<(String, Ty)> {
        let ctx = |k: &str| format!("{}: unsupported {}: `{}`", env.item, k, i.to_token_stream());
        // `if let (Ok(a), Ok(b)) = (x, y) { A } else { B }` as a tail expression
        if let Expr::Let(l) = &*i.cond {
            let (s, st) = self.expr(&l.expr, env, None)?;
            let mut env2 = env.clone();
            let p = self.pattern(&l.pat, &st, &mut env2)?;
            let (t, tt) = self.block_value(&i.then_branch, &env2, hint)?;
            let (f, _) = match &i.else_branch {
                Some((_, e)) => self.expr_or_stmt_tail(e, rest, env, hint)?,
                None => self.stmts(rest, env, hint)?,
            };
            return Ok((format!("(match {} with | {} => {} | _ => {} end)", s, p, t, f), tt));
        }
        let (c, _) = self.cond(&i.cond, env)?;
        let then_div = i.then_branch.stmts.last().map(Self::stmt_diverges).unwrap_or(false);
        if !then_div && !(rest.is_empty()) {
            return Err(ctx("non-diverging statement-level if"));
        }
        let (t, tt) = self.block_value(&i.then_branch, env, hint)?;
        let (f, ft) = match &i.else_branch {
            Some((_, e)) => self.expr_or_stmt_tail(e, rest, env, hint)?,
            None => self.stmts(rest, env, hint)?,
        };
        let ty = if ft != Ty::Unknown && ft != Ty::Unit { ft } else { tt };
        Ok((format!("(if {} then {} else {})", c, t, f), ty))
    }

    fn expr_or_stmt_tail(&mut self, e: &Expr, rest: &[Stmt], env: &Env, hint: Option<&Ty>) -> R<(String, Ty)> {
        match e {
            Expr::If(i) => self.if_stmt(i, rest, env, hint),
            Expr::Block(b) => {
                let mut all: Vec<Stmt> = b.block.stmts.clone();
                let div = all.last().map(Self::stmt_diverges).unwrap_or(false);
                if !div {
                    all.extend_from_slice(rest);
                }
                self.stmts(&all, env, hint)
            }
            _ => self.expr(e, env, hint),
        }
    }

    fn ret_value(&mut self, e: &Expr, env: &Env) -> R<(String, Ty)> {
        match e {
            Expr::Return(r) => match &r.expr {
                Some(v) => self.expr(v, env, Some(&env.ret)),
                None => Ok(("tt".into(), Ty::Unit)),
            },
            Expr::Block(b) => self.stmts(&b.block.stmts, env, Some(&env.ret)),
            _ => Err(format!("{}: expected `return`: `{}`", env.item, e.to_token_stream())),
        }
    }

    /// translate (once) a method; returns its Gallina name and return type
    pub fn function(&mut self, f: &FnDef) -> R<(String, Ty)> {
        let sty = f.self_ty.clone().unwrap();
        let mname = f.item.sig.ident.to_string();
        let key = match &f.trait_name {
            Some(t) => format!("{} as {}::{}", sty, t, mname),
            None => format!("{}::{}", sty, mname),
        };
        if let Some(r) = self.emitted.get(&key) {
            return Ok(r.clone());
        }
        if !self.in_progress.insert(key.clone()) {
            return Err(format!("recursive function {}", key));
        }
        // naming: trait impl of the validator keeps the plain name; inherent duplicates get _inh
        let clash = f.trait_name.is_none()
            && self.items.fns.iter().any(|g| {
                g.self_ty == f.self_ty && g.item.sig.ident == f.item.sig.ident && g.trait_name.is_some()
            });
        let gname = if clash { format!("{}_{}_inh", sty, mname) } else { format!("{}_{}", sty, mname) };
        let mut env = Env {
            vars: BTreeMap::new(),
            self_ty: Some(sty.clone()),
            generics: f.impl_generics.clone(),
            ret: Ty::Unit,
            item: key.clone(),
        };
        let mut params = vec![];
        for g in &f.impl_generics {
            params.push(format!("({} : enum_tbl)", g));
        }
        for a in &f.item.sig.inputs {
            match a {
                syn::FnArg::Receiver(_) => {
                    env.vars.insert("self".into(), ("self".into(), Ty::Struct(sty.clone())));
                    params.push(format!("(self : {})", sty));
                }
                syn::FnArg::Typed(pt) => {
                    let n = match &*pt.pat {
                        Pat::Ident(i) => i.ident.to_string(),
                        _ => return Err(format!("{}: unsupported parameter pattern", key)),
                    };
                    let t = self.ty_of_in(&pt.ty, f)?;
                    let g = coq_ident(&n);
                    params.push(format!("({} : {})", g, t.gallina()));
                    env.vars.insert(n, (g, t));
                }
            }
        }
        env.ret = match &f.item.sig.output {
            syn::ReturnType::Default => Ty::Unit,
            syn::ReturnType::Type(_, t) => self.ty_of_in(t, f)?,
        };
        let (body, _) = self.stmts(&f.item.block.stmts, &env, Some(&env.ret.clone()))?;
        let def = format!(
            "(* {} [{}] *)\nDefinition {} {} : {} :=\n  {}.\n",
            key,
            f.file,
            gname,
            params.join(" "),
            env.ret.gallina(),
            body
        );
        self.in_progress.remove(&key);
        self.emitted.insert(key.clone(), (gname.clone(), env.ret.clone()));
        self.out.push((key, def));
        Ok((gname, env.ret))
    }

    pub fn free_function(&mut self, f: &FreeFn) -> R<(String, Ty)> {
        let name = f.item.sig.ident.to_string();
        let key = format!("fn {}", name);
        if let Some(r) = self.emitted.get(&key) {
            return Ok(r.clone());
        }
        let mut env = Env { vars: BTreeMap::new(), self_ty: None, generics: vec![], ret: Ty::Unit, item: key.clone() };
        let mut params = vec![];
        for a in &f.item.sig.inputs {
            if let syn::FnArg::Typed(pt) = a {
                let n = match &*pt.pat {
                    Pat::Ident(i) => i.ident.to_string(),
                    _ => return Err(format!("{}: unsupported parameter pattern", key)),
                };
                let t = self.ty_of(&pt.ty, &[])?;
                let g = coq_ident(&n);
                params.push(format!("({} : {})", g, t.gallina()));
                env.vars.insert(n, (g, t));
            }
        }
        env.ret = match &f.item.sig.output {
            syn::ReturnType::Default => Ty::Unit,
            syn::ReturnType::Type(_, t) => self.ty_of(t, &[])?,
        };
        let (body, _) = self.stmts(&f.item.block.stmts, &env, Some(&env.ret.clone()))?;
        let gname = format!("fn_{}", name);
        let def = format!(
            "(* {} [{}] *)\nDefinition {} {} : {} :=\n  {}.\n",
            key,
            f.file,
            gname,
            params.join(" "),
            env.ret.gallina(),
            body
        );
        self.emitted.insert(key.clone(), (gname.clone(), env.ret.clone()));
        self.out.push((key, def));
        Ok((gname, env.ret))
    }
}
