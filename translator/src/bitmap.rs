// The dirty-log arithmetic of vhost-user-backend/src/bitmap.rs, regenerated: the page / word / bit functions and
// their constants, AtomicBitmapMmap::new as a function from (region start, region length, log length) to the
// (pages before the region, number of pages) it keeps - or refusal -, and the expressions of
// AtomicBitmapMmap::mark_dirty (first / last page, out-of-bounds stop, absolute page, word, mask).
use quote::ToTokens;
use syn::{BinOp, Expr, Stmt};

fn die(m: &str) -> ! {
    // caught in main: only the Gen file of this part of the source is replaced by a rejection marker
    panic!("rs2v(bitmap): {}", m)
}
fn toks<T: ToTokens>(t: &T) -> String {
    t.to_token_stream().to_string()
}

fn g(e: &Expr) -> String {
    match e {
        Expr::Paren(p) => g(&p.expr),
        Expr::Group(x) => g(&x.expr),
        Expr::Path(p) => {
            let segs: Vec<String> = p.path.segments.iter().map(|s| s.ident.to_string()).collect();
            if segs.len() == 1 {
                let n = &segs[0];
                if n.chars().all(|c| c.is_uppercase() || c == '_' || c.is_ascii_digit()) {
                    format!("bm_{}", n)
                } else {
                    n.clone()
                }
            } else if segs == ["u8", "BITS"] {
                "8".into()
            } else {
                die(&format!("path {}", toks(e)))
            }
        }
        Expr::Lit(l) => match &l.lit {
            syn::Lit::Int(i) => i.base10_digits().to_string(),
            _ => die(&format!("literal {}", toks(e))),
        },
        Expr::Cast(c) => g(&c.expr),
        Expr::Field(f) if toks(&f.base) == "self" => toks(&f.member),
        Expr::Binary(b) => {
            let (l, r) = (g(&b.left), g(&b.right));
            match b.op {
                BinOp::Div(_) => format!("(N.div {} {})", l, r),
                BinOp::Rem(_) => format!("(N.modulo {} {})", l, r),
                BinOp::Add(_) => format!("(N.add {} {})", l, r),
                BinOp::Sub(_) => format!("(N.sub {} {})", l, r),
                BinOp::Shl(_) => format!("(N.shiftl {} {})", l, r),
                BinOp::Eq(_) => format!("(N.eqb {} {})", l, r),
                BinOp::Ne(_) => format!("(negb (N.eqb {} {}))", l, r),
                BinOp::Ge(_) => format!("(N.leb {} {})", r, l),
                BinOp::Gt(_) => format!("(N.ltb {} {})", r, l),
                BinOp::Le(_) => format!("(N.leb {} {})", l, r),
                BinOp::Lt(_) => format!("(N.ltb {} {})", l, r),
                BinOp::Or(_) => format!("(orb {} {})", l, r),
                BinOp::And(_) => format!("(andb {} {})", l, r),
                _ => die(&format!("operator in {}", toks(e))),
            }
        }
        Expr::MethodCall(m) => {
            let name = m.method.to_string();
            match (name.as_str(), m.args.len()) {
                ("saturating_add", 1) => format!("(bm_sat_add {} {})", g(&m.receiver), g(&m.args[0])),
                ("checked_add", 1) => format!("(bm_chk_add {} {})", g(&m.receiver), g(&m.args[0])),
                ("len", 0) => format!("{}_len", g(&m.receiver)),
                _ => die(&format!("method in {}", toks(e))),
            }
        }
        Expr::Call(c) => {
            let f = toks(&c.func);
            if ["page_number", "page_word", "page_bit"].contains(&f.as_str()) && c.args.len() == 1 {
                format!("(bm_{} {})", f, g(&c.args[0]))
            } else {
                die(&format!("call {}", toks(e)))
            }
        }
        _ => die(&format!("expression outside the bitmap subset: {}", toks(e))),
    }
}

fn is_err_return(b: &syn::Block) -> bool {
    b.stmts.len() == 1 && toks(&b.stmts[0]).starts_with("return Err")
}

/// statements of `new` -> nested Gallina returning option (a * b)
fn new_body(stmts: &[Stmt], params: &mut Vec<String>) -> String {
    if stmts.is_empty() {
        die("new: no result");
    }
    let rest = &stmts[1..];
    match &stmts[0] {
        Stmt::Local(l) => {
            let name = match &l.pat {
                syn::Pat::Type(t) => toks(&t.pat),
                p => toks(p),
            };
            let init = &l.init.as_ref().unwrap_or_else(|| die("new: binding without value")).expr;
            if toks(init).contains("region .") {
                // a value read from the memory region: an input of the function
                params.push(name);
                return new_body(rest, params);
            }
            if let Expr::Try(t) = &**init {
                // X.ok_or(..)?  ->  bind over an option
                if let Expr::MethodCall(m) = &*t.expr {
                    if m.method == "ok_or" {
                        return format!("match {} with\n  | None => None\n  | Some {} =>\n  {}\n  end", g(&m.receiver), name, new_body(rest, params));
                    }
                }
                die(&format!("new: unsupported `?` in {}", toks(init)));
            }
            format!("let {} := {} in\n  {}", name, g(init), new_body(rest, params))
        }
        Stmt::Expr(Expr::If(i), _) if i.else_branch.is_none() && is_err_return(&i.then_branch) => {
            format!("if {} then None else\n  {}", g(&i.cond), new_body(rest, params))
        }
        Stmt::Expr(Expr::Call(c), None) if toks(&c.func) == "Ok" && rest.is_empty() => {
            if let Some(Expr::Struct(s)) = c.args.first() {
                let mut vals = vec![];
                for f in &s.fields {
                    let m = toks(&f.member);
                    if m == "logmem" {
                        continue;
                    }
                    vals.push(format!("(* {} *) {}", m, g(&f.expr)));
                }
                return format!("Some ({})", vals.join(", "));
            }
            die("new: result is not Ok(Self { .. })")
        }
        other => die(&format!("new: unexpected statement {}", toks(other))),
    }
}

fn find_impl_fn<'a>(file: &'a syn::File, ty: &str, tr: Option<&str>, name: &str) -> &'a syn::ImplItemFn {
    for it in &file.items {
        if let syn::Item::Impl(im) = it {
            let t = toks(&im.self_ty);
            let trn = im.trait_.as_ref().map(|(_, p, _)| p.segments.last().unwrap().ident.to_string());
            if t == ty && trn.as_deref() == tr {
                for ii in &im.items {
                    if let syn::ImplItem::Fn(f) = ii {
                        if f.sig.ident == name {
                            return f;
                        }
                    }
                }
            }
        }
    }
    die(&format!("{}::{} not found", ty, name))
}

pub fn emit(repo: &str) -> String {
    let path = format!("{}/vhost-user-backend/src/bitmap.rs", repo);
    let src = std::fs::read_to_string(&path).unwrap_or_else(|_| die(&format!("cannot read {}", path)));
    let file = syn::parse_file(&src).unwrap_or_else(|e| die(&format!("parse {}: {}", path, e)));
    let mut s = String::from("(* GENERATED by rs2v (bitmap.rs) from vhost-user-backend/src/bitmap.rs - do not edit. *)\nFrom Coq Require Import List String NArith Bool.\nImport ListNotations.\nOpen Scope string_scope.\nOpen Scope N_scope.\n\n(* usize arithmetic of the source: 64-bit *)\nDefinition bm_sat_add (a b : N) : N := N.min (a + b) (2 ^ 64 - 1).\nDefinition bm_chk_add (a b : N) : option N := if a + b <? 2 ^ 64 then Some (a + b) else None.\n\n");
    // constants and the three free functions
    for it in &file.items {
        if let syn::Item::Const(c) = it {
            let n = c.ident.to_string();
            if n.starts_with("LOG_") {
                s.push_str(&format!("Definition bm_{} : N := {}.\n", n, g(&c.expr)));
            }
        }
    }
    for it in &file.items {
        if let syn::Item::Fn(f) = it {
            let n = f.sig.ident.to_string();
            if ["page_number", "page_word", "page_bit"].contains(&n.as_str()) {
                let arg = match f.sig.inputs.first() {
                    Some(syn::FnArg::Typed(t)) => toks(&t.pat),
                    _ => die("page function without argument"),
                };
                let body = match f.block.stmts.as_slice() {
                    [Stmt::Expr(e, None)] => g(e),
                    _ => die(&format!("{}: body is not a single expression", n)),
                };
                s.push_str(&format!("Definition bm_{} ({} : N) : N := {}.\n", n, arg, body));
            }
        }
    }
    // AtomicBitmapMmap::new
    let f = find_impl_fn(&file, "AtomicBitmapMmap", Some("MemRegionBitmap"), "new");
    let mut params = vec![];
    let body = new_body(&f.block.stmts, &mut params);
    s.push_str(&format!(
        "\n(* AtomicBitmapMmap::new: (pages_before_region, number_of_pages), or refusal *)\nDefinition bm_new ({} logmem_len : N) : option (N * N) :=\n  {}.\n",
        params.join(" "),
        body
    ));
    // AtomicBitmapMmap::mark_dirty
    let f = find_impl_fn(&file, "AtomicBitmapMmap", None, "mark_dirty");
    let mut shape = vec![];
    let mut defs = String::new();
    for st in &f.block.stmts {
        match st {
            Stmt::Expr(Expr::If(i), _) if i.else_branch.is_none() && toks(&i.then_branch).replace(' ', "") == "{return;}" => {
                defs.push_str(&format!("Definition bm_md_skip (offset len : N) : bool := {}.\n", g(&i.cond)));
            }
            Stmt::Local(l) => {
                let name = toks(&l.pat);
                let init = &l.init.as_ref().unwrap_or_else(|| die("mark_dirty: binding without value")).expr;
                defs.push_str(&format!("Definition bm_md_{} (offset len : N) : N := {}.\n", name, g(init)));
            }
            Stmt::Expr(Expr::ForLoop(lp), _) => {
                shape.push(format!("for {} in {}", toks(&lp.pat), toks(&lp.expr)));
                for b in &lp.body.stmts {
                    match b {
                        Stmt::Expr(Expr::If(i), _) if i.else_branch.is_none() => {
                            shape.push(format!("if .. {}", toks(&i.then_branch).split("//").next().unwrap_or("").trim()));
                            defs.push_str(&format!("Definition bm_md_stop (page number_of_pages : N) : bool := {}.\n", g(&i.cond)));
                        }
                        Stmt::Local(l) => {
                            let init = &l.init.as_ref().unwrap_or_else(|| die("mark_dirty: binding without value")).expr;
                            shape.push(format!("let {}", toks(&l.pat)));
                            defs.push_str(&format!("Definition bm_md_abs (pages_before_region page : N) : N := {}.\n", g(init)));
                        }
                        Stmt::Expr(Expr::MethodCall(m), _) if m.method == "fetch_or" => {
                            // self.logmem[WORD].fetch_or(MASK, ..)
                            let word = match &*m.receiver {
                                Expr::Index(ix) => g(&ix.index),
                                _ => die("mark_dirty: fetch_or receiver"),
                            };
                            defs.push_str(&format!("Definition bm_md_word (page : N) : N := {}.\n", word));
                            defs.push_str(&format!("Definition bm_md_mask (page : N) : N := {}.\n", g(&m.args[0])));
                            shape.push(format!("{} . fetch_or", toks(&m.receiver)));
                        }
                        other => die(&format!("mark_dirty: unexpected statement in the page loop: {}", toks(other))),
                    }
                }
            }
            other => die(&format!("mark_dirty: unexpected statement {}", toks(other))),
        }
    }
    s.push_str("\n(* AtomicBitmapMmap::mark_dirty *)\n");
    s.push_str(&defs);
    s.push_str(&format!(
        "Definition bm_md_shape : list string :=\n  [{}].\n",
        shape.iter().map(|x| format!("\"{}\"", x.replace('"', "'"))).collect::<Vec<_>>().join(";\n   ")
    ));
    // BitmapMmapRegion::mark_dirty: how the slice base enters
    let f = find_impl_fn(&file, "BitmapMmapRegion", Some("Bitmap"), "mark_dirty");
    s.push_str(&format!("\n(* BitmapMmapRegion::mark_dirty (the slice's base address enters here) *)\nDefinition bm_region_mark_dirty_src : string := \"{}\".\n", toks(&f.block).replace('"', "'")));
    let f = find_impl_fn(&file, "BitmapMmapRegion", Some("Bitmap"), "slice_at");
    s.push_str(&format!("Definition bm_region_slice_at_src : string := \"{}\".\n", toks(&f.block).replace('"', "'")));
    s
}
