// The reply readers of the frontend (vhost/src/vhost_user/frontend.rs: recv_reply, recv_reply_with_optional_files,
// recv_reply_with_files, recv_reply_with_payload, wait_for_ack) and the two receive primitives they stand on
// (connection.rs: recv_header, recv_body), regenerated: every `if <condition> { return <result> }` of a function becomes
// a boolean definition over a fixed list of named quantities, in order; the result each one returns and the statements
// between them are kept as text and compared by theorem.
use quote::ToTokens;
use syn::{BinOp, Expr, Stmt, UnOp};

fn die(m: &str) -> ! {
    // caught in main: only the Gen file of this part of the source is replaced by a rejection marker
    panic!("rs2v(ferecv): {}", m)
}
fn toks<T: ToTokens>(t: &T) -> String {
    t.to_token_stream().to_string()
}
fn nows<T: ToTokens>(t: &T) -> String {
    toks(t).replace(' ', "")
}

const NATOMS: [(&str, &str); 12] = [
    ("mem::size_of::<T>()", "tsz"),
    ("mem::size_of::<H>()", "hsz"),
    ("MAX_MSG_SIZE", "max_msg"),
    ("hdr.get_size()asusize", "hdr_size"),
    ("size", "size"),
    ("bytes", "bytes"),
    ("total", "total"),
    ("buf.len()", "buf_len"),
    ("body.value", "value"),
    ("self.acked_protocol_features", "apf"),
    ("VhostUserProtocolFeatures::REPLY_ACK.bits()", "VhostUserProtocolFeatures_REPLY_ACK"),
    ("self.virtio_features", "vf"),
];
const BATOMS: [(&str, &str); 8] = [
    ("hdr.is_reply()", "hdr_is_reply"),
    ("reply.is_reply_for(hdr)", "is_reply_for"),
    ("rfds.is_some()", "has_files"),
    ("files.is_some()", "has_files"),
    ("files.is_none()", "(negb has_files)"),
    ("body.is_valid()", "body_valid"),
    ("hdr.is_need_reply()", "need_reply"),
    ("hdr.is_valid()", "hdr_valid"),
];

fn nexp(e: &Expr) -> String {
    let t = nows(e);
    for (a, g) in NATOMS.iter() {
        if *a == t {
            return g.to_string();
        }
    }
    match e {
        Expr::Paren(p) => nexp(&p.expr),
        Expr::Group(g) => nexp(&g.expr),
        Expr::Lit(l) => match &l.lit {
            syn::Lit::Int(i) => i.base10_digits().to_string(),
            _ => die(&format!("literal {}", t)),
        },
        Expr::Binary(b) => match b.op {
            BinOp::Sub(_) => format!("(N.sub {} {})", nexp(&b.left), nexp(&b.right)),
            BinOp::Add(_) => format!("(N.add {} {})", nexp(&b.left), nexp(&b.right)),
            BinOp::BitAnd(_) => format!("(N.land {} {})", nexp(&b.left), nexp(&b.right)),
            _ => die(&format!("numeric operator in {}", t)),
        },
        _ => die(&format!("quantity {}", t)),
    }
}

fn bexp(e: &Expr) -> String {
    let t = nows(e);
    for (a, g) in BATOMS.iter() {
        if *a == t {
            return g.to_string();
        }
    }
    match e {
        Expr::Paren(p) => bexp(&p.expr),
        Expr::Group(g) => bexp(&g.expr),
        Expr::Unary(u) if matches!(u.op, UnOp::Not(_)) => format!("(negb {})", bexp(&u.expr)),
        Expr::Binary(b) => {
            let n2 = |f: &str| format!("({} {} {})", f, nexp(&b.left), nexp(&b.right));
            match b.op {
                BinOp::Or(_) => format!("(orb {} {})", bexp(&b.left), bexp(&b.right)),
                BinOp::And(_) => format!("(andb {} {})", bexp(&b.left), bexp(&b.right)),
                BinOp::Eq(_) => n2("N.eqb"),
                BinOp::Ne(_) => format!("(negb {})", n2("N.eqb")),
                BinOp::Lt(_) => n2("N.ltb"),
                BinOp::Le(_) => n2("N.leb"),
                BinOp::Gt(_) => format!("(N.ltb {} {})", nexp(&b.right), nexp(&b.left)),
                BinOp::Ge(_) => format!("(N.leb {} {})", nexp(&b.right), nexp(&b.left)),
                _ => die(&format!("operator in {}", t)),
            }
        }
        _ => die(&format!("condition {}", t)),
    }
}

fn find_fn<'a>(file: &'a syn::File, ty: &str, name: &str) -> &'a syn::ImplItemFn {
    for it in &file.items {
        if let syn::Item::Impl(im) = it {
            if toks(&im.self_ty).starts_with(ty) && im.trait_.is_none() {
                for ii in &im.items {
                    if let syn::ImplItem::Fn(f) = ii {
                        if f.sig.ident == name {
                            return f;
                        }
                    }
                }
            }
        }
    }
    die(&format!("{}::{} not found", ty, name))
}

/// the single `return <x>;` a decision's block consists of
fn returned(b: &syn::Block) -> String {
    if b.stmts.len() != 1 {
        die(&format!("a decision's block has {} statements", b.stmts.len()));
    }
    match &b.stmts[0] {
        Stmt::Expr(Expr::Return(r), _) => r.expr.as_ref().map(|x| nows(x)).unwrap_or_default(),
        other => die(&format!("a decision's block is not a return: {}", toks(other))),
    }
}

/// decisions of a function: (condition, what is returned); statements between them as text with markers
fn decisions(f: &syn::ImplItemFn) -> (Vec<(String, String)>, Vec<String>) {
    let mut ds = vec![];
    let mut shape = vec![];
    for st in &f.block.stmts {
        match st {
            Stmt::Expr(Expr::If(i), _) => {
                let mut cur = i;
                loop {
                    ds.push((bexp(&cur.cond), returned(&cur.then_branch)));
                    shape.push(format!("decision {} -> {}", ds.len(), ds.last().unwrap().1));
                    match &cur.else_branch {
                        None => break,
                        Some((_, e)) => match &**e {
                            Expr::If(j) => {
                                shape.push("else".into());
                                cur = j;
                            }
                            other => die(&format!("else branch {}", toks(other))),
                        },
                    }
                }
            }
            other => {
                let t = nows(other);
                if !t.starts_with("//") {
                    shape.push(t.replace('"', "'"));
                }
            }
        }
    }
    (ds, shape)
}

struct Spec {
    file: &'static str,
    ty: &'static str,
    name: &'static str,
    prefix: &'static str,
    params: &'static [&'static str],
}

pub fn emit(repo: &str) -> String {
    let specs = [
        Spec { file: "frontend.rs", ty: "FrontendInternal", name: "recv_reply", prefix: "frr", params: &["(tsz max_msg : N) (hdr_is_reply : bool)", "(is_reply_for has_files body_valid : bool)"] },
        Spec { file: "frontend.rs", ty: "FrontendInternal", name: "recv_reply_with_optional_files", prefix: "fro", params: &["(tsz max_msg : N) (hdr_is_reply : bool)", "(is_reply_for has_files body_valid : bool)"] },
        Spec { file: "frontend.rs", ty: "FrontendInternal", name: "recv_reply_with_files", prefix: "frf", params: &["(has_files : bool)"] },
        Spec {
            file: "frontend.rs",
            ty: "FrontendInternal",
            name: "recv_reply_with_payload",
            prefix: "frp",
            params: &[
                "(tsz hdr_size max_msg : N) (hdr_is_reply : bool)",
                "(is_reply_for has_files : bool) (size tsz hdr_size : N)",
                "(bytes size : N)",
                "(body_valid : bool) (buf_len hdr_size tsz : N)",
            ],
        },
        Spec { file: "frontend.rs", ty: "FrontendInternal", name: "wait_for_ack", prefix: "fra", params: &["(apf : N) (need_reply : bool)", "(is_reply_for has_files body_valid : bool)", "(value : N)"] },
        Spec { file: "connection.rs", ty: "Endpoint", name: "recv_header", prefix: "frh", params: &["(bytes hsz : N) (hdr_valid : bool)", "(bytes hsz : N) (hdr_valid : bool)", "(bytes hsz : N) (hdr_valid : bool)"] },
        Spec { file: "connection.rs", ty: "Endpoint", name: "recv_body", prefix: "frb", params: &["(bytes total : N) (hdr_valid body_valid : bool)", "(bytes total : N) (hdr_valid body_valid : bool)"] },
    ];
    let mut s = String::from("(* GENERATED by rs2v (ferecv.rs) from vhost/src/vhost_user/frontend.rs and connection.rs - do not edit. *)\nFrom VV Require Import Base.Bits Gen.GenConsts.\nFrom Coq Require Import List String NArith Bool.\nImport ListNotations.\nOpen Scope string_scope.\nOpen Scope N_scope.\n\n");
    let mut cache: Option<(String, syn::File)> = None;
    for sp in specs.iter() {
        if cache.as_ref().map(|c| c.0.as_str()) != Some(sp.file) {
            let path = format!("{}/vhost/src/vhost_user/{}", repo, sp.file);
            let src = std::fs::read_to_string(&path).unwrap_or_else(|_| die(&format!("cannot read {}", path)));
            let file = syn::parse_file(&src).unwrap_or_else(|e| die(&format!("parse {}: {}", path, e)));
            cache = Some((sp.file.to_string(), file));
        }
        let file = &cache.as_ref().unwrap().1;
        let f = find_fn(file, sp.ty, sp.name);
        let (ds, shape) = decisions(f);
        if ds.len() != sp.params.len() {
            die(&format!("{}: {} decisions where {} are expected", sp.name, ds.len(), sp.params.len()));
        }
        s.push_str(&format!("(* {}::{} *)\n", sp.ty, sp.name));
        for (k, (c, _)) in ds.iter().enumerate() {
            s.push_str(&format!("Definition {}_d{} {} : bool := {}.\n", sp.prefix, k + 1, sp.params[k], c));
        }
        s.push_str(&format!(
            "Definition {}_shape : list string :=\n  [{}].\n\n",
            sp.prefix,
            shape.iter().map(|x| format!("\"{}\"", x)).collect::<Vec<_>>().join(";\n   ")
        ));
    }
    s
}
