// The queue -> worker routing of the daemon (vhost-user-backend/src/handler.rs), regenerated:
//  * update_vring_registration / unregister_vring_kick: the loop over the worker masks, the shifted mask, the
//    membership test, the event id expression, the worker the registration goes to, the value handed to the
//    epoll handler, and whether the loop stops at the first hit;
//  * VhostUserHandler::new: the membership test that builds each worker's ring slice and what the worker gets.
// Expressions become Gallina over N; the surrounding shape is kept as token strings.
use quote::ToTokens;
use syn::{BinOp, Expr, Stmt};

fn die(m: &str) -> ! {
    // caught in main: only the Gen file of this part of the source is replaced by a rejection marker
    panic!("rs2v(route): {}", m)
}

fn toks<T: ToTokens>(t: &T) -> String {
    t.to_token_stream().to_string()
}

/// the pure integer subset used by the routing code
fn gallina(e: &Expr) -> String {
    match e {
        Expr::Paren(p) => gallina(&p.expr),
        Expr::Group(g) => gallina(&g.expr),
        Expr::Path(p) if p.path.segments.len() == 1 => p.path.segments[0].ident.to_string(),
        Expr::Lit(l) => match &l.lit {
            syn::Lit::Int(i) => i.base10_digits().to_string(),
            _ => die(&format!("literal {}", toks(e))),
        },
        Expr::Unary(u) if matches!(u.op, syn::UnOp::Deref(_)) => gallina(&u.expr),
        Expr::Reference(r) => gallina(&r.expr),
        Expr::Cast(c) => gallina(&c.expr), // widening casts only occur here (u8 / usize index into a u64 shift)
        Expr::Binary(b) => {
            let (l, r) = (gallina(&b.left), gallina(&b.right));
            match b.op {
                BinOp::Shr(_) => format!("(N.shiftr {} {})", l, r),
                BinOp::Shl(_) => format!("(N.shiftl {} {})", l, r),
                BinOp::BitAnd(_) => format!("(N.land {} {})", l, r),
                BinOp::BitOr(_) => format!("(N.lor {} {})", l, r),
                BinOp::Eq(_) => format!("(N.eqb {} {})", l, r),
                BinOp::Ne(_) => format!("(negb (N.eqb {} {}))", l, r),
                BinOp::Sub(_) => format!("(N.sub {} {})", l, r),
                BinOp::Add(_) => format!("(N.add {} {})", l, r),
                BinOp::Ge(_) => format!("(N.leb {} {})", r, l),
                BinOp::Gt(_) => format!("(N.ltb {} {})", r, l),
                BinOp::Le(_) => format!("(N.leb {} {})", l, r),
                BinOp::Lt(_) => format!("(N.ltb {} {})", l, r),
                BinOp::And(_) => format!("(andb {} {})", l, r),
                BinOp::Or(_) => format!("(orb {} {})", l, r),
                _ => die(&format!("operator in {}", toks(e))),
            }
        }
        Expr::Field(f) if toks(&f.base) == "mapping" => toks(&f.member),
        Expr::MethodCall(m) if m.method == "count_ones" && m.args.is_empty() => format!("(popcount {})", gallina(&m.receiver)),
        Expr::MethodCall(m) if m.method == "is_power_of_two" && m.args.is_empty() => format!("(is_pow2 {})", gallina(&m.receiver)),
        Expr::Unary(u) if matches!(u.op, syn::UnOp::Not(_)) => format!("(negb {})", gallina(&u.expr)),
        Expr::Field(f) if toks(&f.base) == "self" => toks(&f.member),
        Expr::Call(c) if toks(&c.func).replace(' ', "") == "u64::from" && c.args.len() == 1 => gallina(&c.args[0]),
        _ => die(&format!("expression outside the routing subset: {}", toks(e))),
    }
}

fn find_fn<'a>(file: &'a syn::File, name: &str) -> &'a syn::ImplItemFn {
    for it in &file.items {
        if let syn::Item::Impl(im) = it {
            if toks(&im.self_ty).starts_with("VhostUserHandler") && im.trait_.is_none() {
                for ii in &im.items {
                    if let syn::ImplItem::Fn(f) = ii {
                        if f.sig.ident == name {
                            return f;
                        }
                    }
                }
            }
        }
    }
    die(&format!("VhostUserHandler::{} not found", name))
}

/// a method of the `VhostUserBackendReqHandlerMut for VhostUserHandler` impl
fn find_trait_fn<'a>(file: &'a syn::File, name: &str) -> &'a syn::ImplItemFn {
    for it in &file.items {
        if let syn::Item::Impl(im) = it {
            if toks(&im.self_ty).starts_with("VhostUserHandler") && im.trait_.is_some() {
                for ii in &im.items {
                    if let syn::ImplItem::Fn(f) = ii {
                        if f.sig.ident == name {
                            return f;
                        }
                    }
                }
            }
        }
    }
    die(&format!("VhostUserHandler::{} (trait impl) not found", name))
}

fn first_for(stmts: &[Stmt]) -> Option<&syn::ExprForLoop> {
    for s in stmts {
        let e = match s {
            Stmt::Expr(e, _) => e,
            _ => continue,
        };
        match e {
            Expr::ForLoop(f) => return Some(f),
            Expr::If(i) => {
                if let Some(f) = first_for(&i.then_branch.stmts) {
                    return Some(f);
                }
            }
            Expr::Block(b) => {
                if let Some(f) = first_for(&b.block.stmts) {
                    return Some(f);
                }
            }
            _ => {}
        }
    }
    None
}

struct Kick {
    shift: String,
    shift_var: String,
    hit: String,
    evt: String,
    evt_var: String,
    shape: Vec<String>,
}

fn collect_calls(stmts: &[Stmt], out: &mut Vec<String>) {
    struct V<'a>(&'a mut Vec<String>);
    impl<'ast, 'a> syn::visit::Visit<'ast> for V<'a> {
        fn visit_expr_method_call(&mut self, m: &'ast syn::ExprMethodCall) {
            let n = m.method.to_string();
            if n == "register_event" || n == "unregister_event" {
                self.0.push(format!("{} on {} with {}", n, toks(&m.receiver), m.args.iter().map(|a| toks(a)).collect::<Vec<_>>().join(" , ")));
            }
            syn::visit::visit_expr_method_call(self, m);
        }
    }
    let mut v = V(out);
    for s in stmts {
        syn::visit::Visit::visit_stmt(&mut v, s);
    }
}

fn kick_fn(file: &syn::File, name: &str) -> Kick {
    let f = find_fn(file, name);
    let lp = first_for(&f.block.stmts).unwrap_or_else(|| die(&format!("{}: no loop over the worker masks", name)));
    let mut shape = vec![format!("for {} in {}", toks(&lp.pat), toks(&lp.expr))];
    let mut shift = None;
    let mut hit = None;
    let mut evt = None;
    for s in &lp.body.stmts {
        match s {
            Stmt::Local(l) => {
                if shift.is_some() {
                    die(&format!("{}: more than one binding before the membership test", name));
                }
                let init = l.init.as_ref().unwrap_or_else(|| die("binding without value"));
                shift = Some((toks(&l.pat), gallina(&init.expr)));
            }
            Stmt::Expr(Expr::If(i), _) => {
                if i.else_branch.is_some() {
                    die(&format!("{}: membership test with an else branch", name));
                }
                hit = Some(gallina(&i.cond));
                let body = &i.then_branch.stmts;
                for b in body {
                    if let Stmt::Local(l) = b {
                        let init = l.init.as_ref().unwrap_or_else(|| die("binding without value"));
                        // `let _ = ...unregister_event(..)` is a call, not a value
                        if toks(&l.pat) != "_" {
                            if evt.is_some() {
                                die(&format!("{}: more than one binding inside the membership test", name));
                            }
                            evt = Some((toks(&l.pat), gallina(&init.expr)));
                        }
                    }
                }
                let mut calls = vec![];
                collect_calls(body, &mut calls);
                shape.extend(calls);
                let last_is_break = matches!(body.last(), Some(Stmt::Expr(Expr::Break(_), _)));
                shape.push(if last_is_break { "break".into() } else { "no-break".into() });
            }
            other => die(&format!("{}: unexpected statement in the worker loop: {}", name, toks(other))),
        }
    }
    let (shift_var, shift) = shift.unwrap_or_else(|| die(&format!("{}: no shifted mask", name)));
    let (evt_var, evt) = evt.unwrap_or_else(|| die(&format!("{}: no event id", name)));
    Kick { shift, shift_var, hit: hit.unwrap_or_else(|| die("no membership test")), evt, evt_var, shape }
}

fn q(v: &[String]) -> String {
    format!("[{}]", v.iter().map(|x| format!("\"{}\"", x.replace('"', "'"))).collect::<Vec<_>>().join(";\n   "))
}

pub fn emit(repo: &str) -> String {
    let path = format!("{}/vhost-user-backend/src/handler.rs", repo);
    let src = std::fs::read_to_string(&path).unwrap_or_else(|_| die(&format!("cannot read {}", path)));
    let file = syn::parse_file(&src).unwrap_or_else(|e| die(&format!("parse {}: {}", path, e)));
    let mut s = String::from("(* GENERATED by rs2v (route.rs) from vhost-user-backend/src/handler.rs - do not edit. *)\nFrom VV Require Import Base.Bits.\nFrom Coq Require Import List String NArith.\nImport ListNotations.\nOpen Scope string_scope.\nOpen Scope N_scope.\n\n");
    for (name, pre) in [("update_vring_registration", "route"), ("unregister_vring_kick", "unroute")] {
        let k = kick_fn(&file, name);
        s.push_str(&format!("(* {} *)\n", name));
        s.push_str(&format!("Definition {}_shift (queues_mask index : N) : N := {}.\n", pre, k.shift));
        s.push_str(&format!("Definition {}_hit ({} : N) : bool := {}.\n", pre, k.shift_var, k.hit));
        s.push_str(&format!("Definition {}_evt (queues_mask {} : N) : N := {}.\n", pre, k.shift_var, k.evt));
        let mut shape = k.shape.clone();
        shape.push(format!("event id variable {}", k.evt_var));
        s.push_str(&format!("Definition {}_shape : list string :=\n  {}.\n\n", pre, q(&shape)));
    }
    // VhostUserHandler::new: the slice of each worker
    let f = find_fn(&file, "new");
    let mut outer = None;
    for st in &f.block.stmts {
        if let Stmt::Expr(Expr::ForLoop(l), _) = st {
            if toks(&l.expr).contains("queues_per_thread") {
                outer = Some(l);
            }
        }
    }
    let outer = outer.unwrap_or_else(|| die("new: no loop over queues_per_thread"));
    let mut shape = vec![format!("for {} in {}", toks(&outer.pat), toks(&outer.expr))];
    let mut member = None;
    for st in &outer.body.stmts {
        if let Stmt::Expr(Expr::ForLoop(inner), _) = st {
            shape.push(format!("for {} in {}", toks(&inner.pat), toks(&inner.expr)));
            for b in &inner.body.stmts {
                match b {
                    Stmt::Expr(Expr::If(i), _) => {
                        if i.else_branch.is_some() {
                            die("new: membership test with an else branch");
                        }
                        member = Some(gallina(&i.cond));
                        shape.push(format!("then {}", toks(&i.then_branch)));
                    }
                    other => die(&format!("new: unexpected statement in the ring loop: {}", toks(other))),
                }
            }
        }
    }
    struct N2<'a>(&'a mut Vec<String>);
    impl<'ast, 'a> syn::visit::Visit<'ast> for N2<'a> {
        fn visit_expr_call(&mut self, c: &'ast syn::ExprCall) {
            if toks(&c.func).replace(' ', "") == "VringEpollHandler::new" {
                self.0.push(format!("VringEpollHandler::new with {}", c.args.iter().map(|a| toks(a)).collect::<Vec<_>>().join(" , ")));
            }
            syn::visit::visit_expr_call(self, c);
        }
    }
    let mut v = N2(&mut shape);
    syn::visit::Visit::visit_block(&mut v, &outer.body);
    // vmm_va_to_gpa: the frontend-address -> guest-address translation
    {
        let f = find_fn(&file, "vmm_va_to_gpa");
        let lp = first_for(&f.block.stmts).unwrap_or_else(|| die("vmm_va_to_gpa: no loop over the mappings"));
        let mut shape = vec![format!("for {} in {}", toks(&lp.pat), toks(&lp.expr))];
        let (mut hit, mut val) = (None, None);
        for st in &lp.body.stmts {
            match st {
                Stmt::Expr(Expr::If(i), _) if i.else_branch.is_none() => {
                    hit = Some(gallina(&i.cond));
                    match i.then_branch.stmts.as_slice() {
                        [Stmt::Expr(Expr::Return(r), _)] => match r.expr.as_deref() {
                            Some(Expr::Call(c)) if toks(&c.func) == "Ok" && c.args.len() == 1 => {
                                val = Some(gallina(&c.args[0]));
                                shape.push("return Ok".into());
                            }
                            _ => die("vmm_va_to_gpa: the hit does not return Ok(value)"),
                        },
                        _ => die("vmm_va_to_gpa: unexpected statements under the containment test"),
                    }
                }
                other => die(&format!("vmm_va_to_gpa: unexpected statement in the loop: {}", toks(other))),
            }
        }
        match f.block.stmts.last() {
            Some(Stmt::Expr(e, None)) if toks(e).starts_with("Err") => shape.push("otherwise Err".into()),
            _ => die("vmm_va_to_gpa: does not end in Err"),
        }
        s.push_str("(* vmm_va_to_gpa *)\n");
        s.push_str(&format!("Definition va_hit (vmm_va vmm_addr size gpa_base : N) : bool := {}.\n", hit.unwrap_or_else(|| die("no containment test"))));
        s.push_str(&format!("Definition va_gpa (vmm_va vmm_addr size gpa_base : N) : N := {}.\n", val.unwrap_or_else(|| die("no value"))));
        s.push_str(&format!("Definition va_shape : list string :=\n  {}.\n\n", q(&shape)));
    }
    // set_vring_num: the size test
    {
        let f = find_trait_fn(&file, "set_vring_num");
        let mut cond = None;
        for st in &f.block.stmts {
            if let Stmt::Expr(Expr::If(i), _) = st {
                if i.else_branch.is_none() && toks(&i.then_branch).contains("return Err") {
                    if cond.is_some() {
                        die("set_vring_num: more than one refusing test");
                    }
                    cond = Some(gallina(&i.cond));
                }
            }
        }
        s.push_str("(* set_vring_num: sizes the daemon refuses *)\n");
        s.push_str(&format!("Definition num_bad (num max_queue_size : N) : bool := {}.\n\n", cond.unwrap_or_else(|| die("set_vring_num: no size test"))));
    }
    s.push_str("(* VhostUserHandler::new: which rings a worker is given *)\n");
    s.push_str(&format!("Definition route_member (queues_mask index : N) : bool := {}.\n", member.unwrap_or_else(|| die("new: no membership test"))));
    s.push_str(&format!("Definition route_new_shape : list string :=\n  {}.\n", q(&shape)));
    s
}
