// The control path of the daemon's per-ring messages (vhost-user-backend/src/handler.rs), regenerated as small
// programs over the ring primitives (`Model/CtlOps.v`):
//  * set_vring_enable, get_vring_base, set_vring_kick, set_vring_call, reset_device, initialize_vring: the statements in
//    order, each recognised as one operation (state change, epoll update, descriptor replacement, early exit ...);
//  * vring_needs_init and the registration condition of update_vring_registration as boolean expressions.
// A statement that is none of the recognised forms makes the module reject the source.
use quote::ToTokens;
use syn::{BinOp, Expr, Stmt, UnOp};

fn die(m: &str) -> ! {
    // caught in main: only the Gen file of this part of the source is replaced by a rejection marker
    panic!("rs2v(ctl): {}", m)
}
fn toks<T: ToTokens>(t: &T) -> String {
    t.to_token_stream().to_string()
}
fn nows<T: ToTokens>(t: &T) -> String {
    toks(t).replace(' ', "")
}

fn find_fn<'a>(file: &'a syn::File, name: &str) -> &'a syn::ImplItemFn {
    for it in &file.items {
        if let syn::Item::Impl(im) = it {
            if toks(&im.self_ty).starts_with("VhostUserHandler") {
                for ii in &im.items {
                    if let syn::ImplItem::Fn(f) = ii {
                        if f.sig.ident == name {
                            return f;
                        }
                    }
                }
            }
        }
    }
    die(&format!("VhostUserHandler::{} not found", name))
}

/// a boolean expression over the ring's state
fn bexp(e: &Expr) -> String {
    match e {
        Expr::Paren(p) => bexp(&p.expr),
        Expr::Group(g) => bexp(&g.expr),
        Expr::Unary(u) if matches!(u.op, UnOp::Not(_)) => format!("(negb {})", bexp(&u.expr)),
        Expr::Binary(b) => match b.op {
            BinOp::And(_) => format!("(andb {} {})", bexp(&b.left), bexp(&b.right)),
            BinOp::Or(_) => format!("(orb {} {})", bexp(&b.left), bexp(&b.right)),
            _ => die(&format!("operator in {}", toks(e))),
        },
        _ => match nows(e).as_str() {
            "vring_state.get_queue().ready()" => "ready".into(),
            "vring_state.get_kick().is_some()" => "has_kick".into(),
            "vring_state.is_enabled()" => "enabled".into(),
            other => die(&format!("condition atom {}", other)),
        },
    }
}

fn is_hook(s: &str) -> bool {
    s.starts_with("#[cfg(vhost_verif)]")
}

fn cond(e: &Expr) -> &'static str {
    match nows(e).as_str() {
        "started" => "CStarted",
        "self.vring_needs_init(vring)" => "CNeedsInit",
        "self.acked_features&VhostUserVirtioFeatures::PROTOCOL_FEATURES.bits()==0" => "CNoProtocolFeatures",
        other => die(&format!("condition {}", other)),
    }
}

fn block(b: &syn::Block, tail_ok: bool) -> String {
    let n = b.stmts.len();
    let ops: Vec<String> = b.stmts.iter().enumerate().filter_map(|(i, s)| stmt(s, tail_ok && i + 1 == n)).collect();
    format!("[{}]", ops.join("; "))
}

fn if_op(i: &syn::ExprIf) -> String {
    let els = match &i.else_branch {
        None => "[]".to_string(),
        Some((_, e)) => match &**e {
            Expr::Block(b) => block(&b.block, false),
            Expr::If(j) => format!("[{}]", if_op(j)),
            other => die(&format!("else branch {}", toks(other))),
        },
    };
    format!("OIf {} {} {}", cond(&i.cond), block(&i.then_branch, false), els)
}

fn fval(a: &str) -> &'static str {
    match a {
        "file" => "FParam",
        "None" => "FNone",
        other => die(&format!("descriptor argument {}", other)),
    }
}

/// one statement -> one operation (None: an instrumentation hook, not part of the code)
fn stmt(s: &Stmt, is_tail: bool) -> Option<String> {
    let t = nows(s);
    if is_hook(&t) {
        return None;
    }
    let get_ring = "letvring=self.vrings.get(indexasusize).ok_or(VhostUserError::InvalidParam)?;";
    let r = match t.as_str() {
        x if x == get_ring => "OGetRing".to_string(),
        "self.check_feature(VhostUserVirtioFeatures::PROTOCOL_FEATURES)?;" => "OCheckFeature VhostUserVirtioFeatures_PROTOCOL_FEATURES".into(),
        "vring.set_enabled(enable);" => "OSetEnabled BParam".into(),
        "vring.set_enabled(true);" => "OSetEnabled BTrue".into(),
        "vring.set_enabled(false);" => "OSetEnabled BFalse".into(),
        "vring.set_queue_ready(true);" => "OSetReady true".into(),
        "vring.set_queue_ready(false);" => "OSetReady false".into(),
        "self.update_vring_registration(vring,indexasu8)?;" | "self.update_vring_registration(vring,index)?;" => "OUpdateReg".into(),
        "self.update_vring_registration(vring,index)" if is_tail => "OUpdateReg".into(),
        "self.unregister_vring_kick(vring,index);" => "OUnregKick".into(),
        "self.initialize_vring(vring,index)?;" => "OInitRing".into(),
        "letstarted=vring.get_ref().get_queue().ready();" => "OLetStarted".into(),
        "letnext_avail=vring.queue_next_avail();" => "OLetNextAvail".into(),
        "if(features&!self.backend.features())!=0{returnErr(VhostUserError::InvalidParam);}" => "OCheckOffered".into(),
        "self.acked_features=features;" => "OSetAckedFeatures".into(),
        "self.features_acked=true;" => "OMarkFeaturesAcked".into(),
        "letevent_idx:bool=(self.acked_features&(1<<VIRTIO_RING_F_EVENT_IDX))!=0;" => "OLetEventIdx".into(),
        "forvringinself.vrings.iter_mut(){vring.set_queue_event_idx(event_idx);}" => "OSetEventIdxAll".into(),
        "self.backend.set_event_idx(event_idx);" => "OBackendEventIdx".into(),
        "self.backend.acked_features(self.acked_features);" => "OBackendAckedFeatures".into(),
        "self.features_acked=false;" => "OForgetFeatures".into(),
        "self.acked_features=0;" => "OClearAckedFeatures".into(),
        "self.backend.reset_device();" => "OBackendReset".into(),
        "Ok(())" if is_tail => "ORetOk".into(),
        "Ok(VhostUserVringState::new(index,u32::from(next_avail)))" if is_tail => "ORetState".into(),
        _ => {
            // forms with an argument or a body
            if let Some(a) = t.strip_prefix("vring.set_kick(").and_then(|x| x.strip_suffix(");")) {
                format!("OSetKick {}", fval(a))
            } else if let Some(a) = t.strip_prefix("vring.set_call(").and_then(|x| x.strip_suffix(");")) {
                format!("OSetCall {}", fval(a))
            } else if let Some(a) = t.strip_prefix("vring.set_err(").and_then(|x| x.strip_suffix(");")) {
                format!("OSetErr {}", fval(a))
            } else {
                match s {
                    Stmt::Expr(Expr::If(i), _) => if_op(i),
                    Stmt::Expr(Expr::ForLoop(f), _) => {
                        if nows(&f.pat) != "(index,vring)" || nows(&f.expr) != "self.vrings.iter().enumerate()" {
                            die(&format!("loop header for {} in {}", toks(&f.pat), toks(&f.expr)));
                        }
                        format!("OForRings {}", block(&f.body, false))
                    }
                    _ => die(&format!("statement outside the subset: {}", toks(s))),
                }
            }
        }
    };
    Some(format!("({})", r))
}

fn program(file: &syn::File, name: &str) -> String {
    let f = find_fn(file, name);
    // the parameters the operations refer to
    let params: Vec<String> = f.sig.inputs.iter().map(|a| nows(a)).collect();
    format!(
        "(* {}({}) *)\nDefinition ctl_{} : list cop :=\n  {}.\n",
        name,
        params.join(", "),
        name,
        block(&f.block, true)
    )
}

/// the `if <cond> { .. register_event .. } else { .. unregister_event .. }` inside update_vring_registration
fn find_reg_if(b: &syn::Block) -> Option<&syn::ExprIf> {
    for s in &b.stmts {
        let e = match s {
            Stmt::Expr(e, _) => e,
            _ => continue,
        };
        if let Some(x) = find_reg_if_expr(e) {
            return Some(x);
        }
    }
    None
}
fn find_reg_if_expr(e: &Expr) -> Option<&syn::ExprIf> {
    match e {
        Expr::If(i) => {
            let th = toks(&i.then_branch);
            let el = i.else_branch.as_ref().map(|(_, x)| toks(x)).unwrap_or_default();
            if th.contains("register_event") && !th.contains("unregister_event") && el.contains("unregister_event") {
                return Some(i);
            }
            find_reg_if(&i.then_branch).or_else(|| i.else_branch.as_ref().and_then(|(_, x)| find_reg_if_expr(x)))
        }
        Expr::ForLoop(f) => find_reg_if(&f.body),
        Expr::Block(b) => find_reg_if(&b.block),
        _ => None,
    }
}

pub fn emit(repo: &str) -> String {
    let path = format!("{}/vhost-user-backend/src/handler.rs", repo);
    let src = std::fs::read_to_string(&path).unwrap_or_else(|_| die(&format!("cannot read {}", path)));
    let file = syn::parse_file(&src).unwrap_or_else(|e| die(&format!("parse {}: {}", path, e)));
    let mut s = String::from("(* GENERATED by rs2v (ctl.rs) from vhost-user-backend/src/handler.rs - do not edit. *)\nFrom VV Require Import Base.Bits Gen.GenConsts Model.CtlOps.\nFrom Coq Require Import List String NArith Bool.\nImport ListNotations.\nOpen Scope N_scope.\n\n");
    // vring_needs_init
    let f = find_fn(&file, "vring_needs_init");
    let n = f.block.stmts.len();
    for (i, st) in f.block.stmts.iter().enumerate() {
        match st {
            Stmt::Local(l) if nows(l) == "letvring_state=vring.get_ref();" => {}
            Stmt::Expr(e, None) if i + 1 == n => {
                s.push_str(&format!("Definition ctl_needs_init (ready has_kick : bool) : bool := {}.\n", bexp(e)));
            }
            other => die(&format!("vring_needs_init: {}", toks(other))),
        }
    }
    // update_vring_registration: when the kick descriptor belongs in the worker's epoll set
    let f = find_fn(&file, "update_vring_registration");
    let i = find_reg_if(&f.block).unwrap_or_else(|| die("update_vring_registration: no register / unregister decision"));
    s.push_str(&format!("Definition ctl_reg_wanted (ready enabled : bool) : bool := {}.\n\n", bexp(&i.cond)));
    for name in ["initialize_vring", "set_vring_enable", "get_vring_base", "set_vring_kick", "set_vring_call", "set_vring_err", "reset_device", "set_features"] {
        s.push_str(&program(&file, name));
    }
    s
}
